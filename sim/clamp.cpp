// Chunk size of the real decompressors: pass-through wrappers of gzread / BZ2_bzRead / inflate /
// BZ2_bzDecompress that clamp the requested output length to the run's constant S. The effect on
// libosmium is exactly that of a smaller Decompressor::input_buffer_size (or of the 10240-byte window
// of the buffer decompressors) - no source hook needed. zlib and libbz2 do all the work.
#include "sim.hpp"

#include <bzlib.h>
#include <zlib.h>

extern "C" {
int __real_gzread(gzFile, voidp, unsigned);
int __real_BZ2_bzRead(int*, BZFILE*, void*, int);
int __real_inflate(z_streamp, int);
int __real_BZ2_bzDecompress(bz_stream*);

int __real_deflate(z_streamp, int);
int __real_BZ2_bzCompress(bz_stream*, int);

// "the compressor fails": the tape-chosen call (counted over all three) of deflate() - which serves gzwrite(),
// gzclose_w() and compress2() -, BZ2_bzCompress() or (lz4wrap.cpp) LZ4_compress_fast() reports an error
int __wrap_deflate(z_streamp strm, int flush) {
    if (sim::active() && sim::compress_fail_at() == 0) {
        sim::count_compress_call(true);
        return Z_STREAM_ERROR;
    }
    if (sim::active()) { sim::count_compress_call(false); }
    return __real_deflate(strm, flush);
}

int __wrap_BZ2_bzCompress(bz_stream* strm, int action) {
    if (sim::active() && sim::compress_fail_at() == 0) {
        sim::count_compress_call(true);
        return BZ_SEQUENCE_ERROR;
    }
    if (sim::active()) { sim::count_compress_call(false); }
    return __real_BZ2_bzCompress(strm, action);
}

int __wrap_gzread(gzFile f, voidp buf, unsigned len) {
    const size_t c = sim::decomp_clamp();
    if (c && len > c) { len = static_cast<unsigned>(c); }
    const int r = __real_gzread(f, buf, len);
    if (r > 0 && sim::active()) { sim::progress(); }
    return r;
}

int __wrap_BZ2_bzRead(int* bzerror, BZFILE* b, void* buf, int len) {
    const size_t c = sim::decomp_clamp();
    if (c && static_cast<size_t>(len) > c) { len = static_cast<int>(c); }
    const int r = __real_BZ2_bzRead(bzerror, b, buf, len);
    if (r > 0 && sim::active()) { sim::progress(); }
    return r;
}

int __wrap_inflate(z_streamp strm, int flush) {
    const size_t c = sim::decomp_clamp();
    if (c && strm->avail_out > c) {
        const unsigned held = strm->avail_out - static_cast<unsigned>(c);
        strm->avail_out = static_cast<unsigned>(c);
        const unsigned before = strm->avail_out;
        const int r = __real_inflate(strm, flush);
        if (strm->avail_out < before && sim::active()) { sim::progress(); }
        strm->avail_out += held;
        return r;
    }
    const unsigned before = strm->avail_out;
    const int r = __real_inflate(strm, flush);
    if (strm->avail_out < before && sim::active()) { sim::progress(); }
    return r;
}

int __wrap_BZ2_bzDecompress(bz_stream* strm) {
    const size_t c = sim::decomp_clamp();
    if (c && strm->avail_out > c) {
        const unsigned held = strm->avail_out - static_cast<unsigned>(c);
        strm->avail_out = static_cast<unsigned>(c);
        const unsigned before = strm->avail_out;
        const int r = __real_BZ2_bzDecompress(strm);
        if (strm->avail_out < before && sim::active()) { sim::progress(); }
        strm->avail_out += held;
        return r;
    }
    const unsigned before = strm->avail_out;
    const int r = __real_BZ2_bzDecompress(strm);
    if (strm->avail_out < before && sim::active()) { sim::progress(); }
    return r;
}
}
