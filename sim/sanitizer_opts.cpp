// Sanitizer defaults for all harness binaries: classify by exit code, no leak checking at exit
// (leaks of libosmium objects are not what these checks decide; fd/thread leaks are modelled).
extern "C" {
__attribute__((used, visibility("default"))) const char* __asan_default_options() {
    return "exitcode=77:detect_leaks=0:abort_on_error=0:allocator_may_return_null=1:detect_stack_use_after_return=0:quarantine_size_mb=16";
}
__attribute__((used, visibility("default"))) const char* __ubsan_default_options() {
    return "halt_on_error=1:exitcode=78:print_stacktrace=1";
}
}
