// Wing-Gong linearizability checker for a FIFO queue history with unique values.
// Operations: PUSH(v), POP -> v, TRYPOP -> empty. Sequential specification: unbounded FIFO queue.
#pragma once

#include <cstdint>
#include <deque>
#include <string>
#include <unordered_set>
#include <vector>

namespace lin {

enum OpKind : int { PUSH = 0, POP = 1, POP_EMPTY = 2 };

struct Op {
    OpKind kind;
    uint32_t value;     // pushed value or popped value
    uint64_t invoke;    // global event sequence number of the call
    uint64_t ret;       // ... of the return
    int thread;
};

class Checker {
    const std::vector<Op>& m_ops;
    std::unordered_set<std::string> m_failed;
    uint64_t m_visited = 0;
    uint64_t m_limit;

    static std::string key(uint64_t done, const std::deque<uint32_t>& q) {
        std::string k(reinterpret_cast<const char*>(&done), sizeof(done));
        for (auto v : q) { k.append(reinterpret_cast<const char*>(&v), sizeof(v)); }
        return k;
    }

    bool search(uint64_t done, std::deque<uint32_t>& q) {
        const size_t n = m_ops.size();
        if (done == ((n == 64) ? ~0ULL : ((1ULL << n) - 1))) { return true; }
        if (++m_visited > m_limit) { return true; } // give up: do not claim a violation
        const std::string k = key(done, q);
        if (m_failed.count(k)) { return false; }
        // earliest return among not yet linearized ops
        uint64_t min_ret = UINT64_MAX;
        for (size_t i = 0; i < n; ++i) {
            if (!(done & (1ULL << i)) && m_ops[i].ret < min_ret) { min_ret = m_ops[i].ret; }
        }
        for (size_t i = 0; i < n; ++i) {
            if (done & (1ULL << i)) { continue; }
            const Op& op = m_ops[i];
            if (op.invoke > min_ret) { continue; } // some other pending op returned before this one was invoked
            switch (op.kind) {
                case PUSH: {
                    q.push_back(op.value);
                    if (search(done | (1ULL << i), q)) { return true; }
                    q.pop_back();
                    break;
                }
                case POP: {
                    if (!q.empty() && q.front() == op.value) {
                        q.pop_front();
                        if (search(done | (1ULL << i), q)) { return true; }
                        q.push_front(op.value);
                    }
                    break;
                }
                case POP_EMPTY: {
                    if (q.empty()) {
                        if (search(done | (1ULL << i), q)) { return true; }
                    }
                    break;
                }
            }
        }
        m_failed.insert(k);
        return false;
    }

public:
    explicit Checker(const std::vector<Op>& ops, uint64_t limit = 2000000) : m_ops(ops), m_limit(limit) {}

    // true = a linearization exists (or the search budget ran out: `exhausted()` tells)
    bool check() {
        if (m_ops.size() > 63) { return true; }
        std::deque<uint32_t> q;
        return search(0, q);
    }
    bool exhausted() const { return m_visited > m_limit; }
    uint64_t visited() const { return m_visited; }
};

} // namespace lin
