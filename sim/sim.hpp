// Deterministic simulator for libosmium: public interface used by the harnesses.
// See /verif/DESIGN.md section 3.
#pragma once

#include <cstdint>
#include <cstddef>
#include <functional>
#include <map>
#include <string>
#include <vector>

namespace sim {

// ---------------------------------------------------------------------------------------------
// Choice tape. Every decision of a run is choose(stream, n). Streams are independent so that
// shrinking the schedule does not move the workload and vice versa. Value 0 is always the
// simplest alternative.
enum Stream : int {
    S_WORK  = 0, // workload: sizes, contents
    S_CONF  = 1, // configuration: pool/queue sizes, options, strategy parameters
    S_SCHED = 2, // scheduling decisions (index into the candidate list)
    S_IO    = 3, // soft I/O perturbation: short read/write lengths, EINTR, chunk sizes
    S_FAULT = 4, // hard fault plan
    S_WAKE  = 5, // which waiter is woken, spurious wake-ups
    S_N     = 6
};

uint32_t choose(Stream s, uint32_t n);          // value in [0, n); n == 0 or 1 -> 0 without consuming
bool     chance(Stream s, uint32_t one_in);     // true with probability 1/one_in (0 -> never)
uint64_t choose64(Stream s);                    // 64 random bits (two entries)
bool     replaying();

// ---------------------------------------------------------------------------------------------
// Run control (called by the harness main thread).
struct RunConfig {
    bool     preemptive     = true;   // false: strategy 0 (reference run, non-preemptive lowest id first)
    uint64_t step_budget    = 60000000;   // hard cap
    uint64_t stall_budget   = 600000;     // livelock: this many scheduling steps without any progress() event
    bool     spurious       = true;   // allow spurious wake-ups (decided per run from the tape)
    bool     fresh_tape     = true;   // false: keep drawing from the same tape position (sub-run of a run)
};

void begin_run(const RunConfig& cfg);   // main thread only; activates the simulated environment
void end_run();                         // checks for leaked threads; deactivates
bool active();

// sub-run without any perturbation, executed inside a run (e.g. a reference decode): the scheduler
// goes non-preemptive, I/O perturbation is off, no tape entries are consumed.
struct QuietScope {
    QuietScope();
    ~QuietScope();
};
bool quiet();

// ---------------------------------------------------------------------------------------------
// Observation
void probe(const char* name, uint64_t n = 1);          // rare-condition counters
void fault_fired(const char* kind, uint64_t n = 1);    // a fault that actually fired
void debug(const std::string& s);                       // printed to stderr when VERIF_VERBOSE is set (crash triage)
void note(const std::string& s);                        // free text added to the sample rendering
void mix_hash(uint64_t v);                              // add to the event-log hash

// Progress marker for the bounded-liveness check: bytes moved through a simulated fd, an element that went through a
// queue under test, a buffer delivered to the consumer, a thread that started or finished. A run in which threads keep
// polling (timed waits) without any such event for stall_budget steps is reported as a livelock.
void progress();
// explicit scheduling point (harness tasks, H1 hooks)
void sched_point(const char* name);
void name_thread(const char* role);                     // role name of the calling thread (used in signatures)
int  current_thread();                                  // simulated thread id (0 = main)
uint64_t event_seq();                                   // global event sequence number (monotone)
uint64_t steps();
int64_t  now_ns();
int  live_threads();                                    // threads not finished (including main)

// Report a violation found by an oracle. Non-fatal: the run continues and the result line carries
// it (first one wins). sig = "<oracle>/<component>/<condition>".
void report(const char* cls, const std::string& sig, const std::string& detail);
void set_signature_tag(const std::string& tag);   // appended to every violation signature until the next begin_run()
// Fatal: print the result line and _exit (threads cannot be unwound).
[[noreturn]] void fatal(const char* cls, const std::string& sig, const std::string& detail);

// configuration seam (getenv wrap): values visible to libosmium as OSMIUM_* environment variables
void set_env(const std::string& name, const std::string& value);
void clear_env();
// values returned through the OSMIUM_VERIF_VALUE hook (osmium_verif_value) of /repo
void set_value(const std::string& name, unsigned long value);
void clear_values();
// clamp for the output length of each gzread/BZ2_bzRead/inflate/BZ2_bzDecompress call (0 = off);
// same effect as compiling with a smaller Decompressor::input_buffer_size (needs clamp.cpp + wraps_clamp.txt)
void set_decomp_clamp(size_t bytes);
size_t decomp_clamp();
// C12 (simmap.cpp): every (re)mapping lands at a fresh address; the n-th fstatvfs reports a full disk (-1 = never)
void set_map_policy(bool move_always, int no_space_at);
// compressor failure: the n-th call (0-based, counted over deflate/BZ2_bzCompress/LZ4_compress_fast) in this run fails (-1 = off)
void set_compress_fail_at(int call);
void set_thread_create_fail_at(int n);   // after begin_run(): the n-th (0-based) pthread_create from now on returns EAGAIN
uint64_t thread_create_failures();
int compress_fail_at();
void count_compress_call(bool failed);
uint64_t compress_failures();

// ---------------------------------------------------------------------------------------------
// Generic worker main: parses the command line, runs `count` runs and prints one JSON line each.
//   --mode M --seed S --start I --count N --stride K [--record-tape FILE] [--replay FILE]
// run_fn(mode) executes one complete run (it calls begin_run/end_run itself, possibly several times).
struct RunInfo {
    std::string mode;
    uint64_t    seed  = 0;
    uint64_t    index = 0;
    std::map<std::string, std::string> params;  // extra --key value pairs
};
using RunFn = std::function<void(const RunInfo&)>;
int worker_main(int argc, char** argv, const RunFn& run_fn);

// the harness may attach a rendered sample of the run to the result line
void set_sample(const std::string& json_value);
void set_field(const std::string& name, const std::string& json_value);   // extra key in the result line (e.g. exhaustive_subspace)
void set_nontrivial(bool v);   // override the default rule (>= 1 step with >= 2 candidates or >= 1 fault)
void add_to_signature(uint64_t v); // contribute to the distinctness signature (schedule signature)

} // namespace sim
