// Deterministic simulator core: baton scheduler over real pthreads, simulated clock, choice tape,
// worker protocol. All blocking primitives reach this file through GNU ld --wrap (see wraps.txt).
// See /verif/DESIGN.md section 3.

#include "sim.hpp"

#include <cerrno>
#include <cinttypes>
#include <climits>
#include <cstdarg>
#include <cstdio>
#include <cstdlib>
#include <cstring>
#include <algorithm>
#include <exception>
#include <string>
#include <unordered_map>
#include <vector>

#include <fcntl.h>
#include <linux/futex.h>
#include <pthread.h>
#include <sys/prctl.h>
#include <sys/resource.h>
#include <sys/syscall.h>
#include <time.h>
#include <unistd.h>

extern "C" {
int __real_pthread_create(pthread_t*, const pthread_attr_t*, void* (*)(void*), void*);
int __real_pthread_join(pthread_t, void**);
int __real_pthread_detach(pthread_t);
int __real_pthread_mutex_lock(pthread_mutex_t*);
int __real_pthread_mutex_trylock(pthread_mutex_t*);
int __real_pthread_mutex_unlock(pthread_mutex_t*);
int __real_pthread_cond_wait(pthread_cond_t*, pthread_mutex_t*);
int __real_pthread_cond_timedwait(pthread_cond_t*, pthread_mutex_t*, const struct timespec*);
int __real_pthread_cond_clockwait(pthread_cond_t*, pthread_mutex_t*, clockid_t, const struct timespec*);
int __real_pthread_cond_signal(pthread_cond_t*);
int __real_pthread_cond_broadcast(pthread_cond_t*);
int __real_pthread_once(pthread_once_t*, void (*)(void));
long __real_syscall(long, ...);
int __real_clock_gettime(clockid_t, struct timespec*);
int __real_nanosleep(const struct timespec*, struct timespec*);
int __real_sched_yield(void);
int __real_prctl(int, ...);
char* __real_getenv(const char*);
}

namespace sim {

// ---------------------------------------------------------------------------------------------
// small utilities

static inline uint64_t splitmix(uint64_t& x) {
    uint64_t z = (x += 0x9e3779b97f4a7c15ULL);
    z = (z ^ (z >> 30)) * 0xbf58476d1ce4e5b9ULL;
    z = (z ^ (z >> 27)) * 0x94d049bb133111ebULL;
    return z ^ (z >> 31);
}

struct Rng {
    uint64_t s[4];
    void seed(uint64_t a) {
        for (auto& v : s) { v = splitmix(a); }
    }
    static inline uint64_t rotl(uint64_t x, int k) { return (x << k) | (x >> (64 - k)); }
    uint64_t next() {
        const uint64_t result = rotl(s[1] * 5, 7) * 9;
        const uint64_t t = s[1] << 17;
        s[2] ^= s[0]; s[3] ^= s[1]; s[1] ^= s[2]; s[0] ^= s[3];
        s[2] ^= t; s[3] = rotl(s[3], 45);
        return result;
    }
};

static std::string json_escape(const std::string& s) {
    std::string o;
    o.reserve(s.size() + 8);
    for (unsigned char c : s) {
        switch (c) {
            case '"': o += "\\\""; break;
            case '\\': o += "\\\\"; break;
            case '\n': o += "\\n"; break;
            case '\r': o += "\\r"; break;
            case '\t': o += "\\t"; break;
            default:
                if (c < 0x20 || c >= 0x7f) {
                    char b[8];
                    snprintf(b, sizeof(b), "\\u%04x", c);
                    o += b;
                } else {
                    o += static_cast<char>(c);
                }
        }
    }
    return o;
}

// ---------------------------------------------------------------------------------------------
// tape

struct Tape {
    std::vector<uint32_t> v[S_N];
    size_t pos[S_N];
    Rng rng[S_N];
    bool replay = false;
    bool explore_stream[S_N] = {false, false, false, false, false, false}; // hybrid replay: these streams are generated
    int record_fd = -1;
    bool replayed(int s) const { return replay && !explore_stream[s]; }
    void reset_explore(uint64_t seed, uint64_t index) {
        replay = false;
        for (int i = 0; i < S_N; ++i) {
            v[i].clear();
            pos[i] = 0;
            uint64_t x = seed * 0x100000001b3ULL + index * 0x9e3779b97f4a7c15ULL + static_cast<uint64_t>(i) * 0xd6e8feb86659fd93ULL + 0x1234567;
            rng[i].seed(x);
        }
    }
    void reset_replay() {
        replay = true;
        for (int i = 0; i < S_N; ++i) { pos[i] = 0; }
    }
};

static Tape g_tape;
static int g_quiet = 0;

static void tape_record(int s, uint32_t val) {
    g_tape.v[s].push_back(val);
    if (g_tape.record_fd >= 0) {
        char b[32];
        int n = snprintf(b, sizeof(b), "%d %u\n", s, val);
        ssize_t r = ::write(g_tape.record_fd, b, static_cast<size_t>(n));
        (void)r;
    }
}

// raw: in replay mode return the recorded value, in explore mode return `gen` and record it
static uint32_t tape_next(int s, uint32_t gen) {
    if (g_tape.replayed(s)) {
        uint32_t val = 0;
        if (g_tape.pos[s] < g_tape.v[s].size()) { val = g_tape.v[s][g_tape.pos[s]]; }
        ++g_tape.pos[s];
        return val;
    }
    tape_record(s, gen);
    return gen;
}

bool replaying() { return g_tape.replay; }

uint32_t choose(Stream s, uint32_t n) {
    if (n <= 1 || g_quiet > 0) { return 0; }
    uint32_t gen = 0;
    if (!g_tape.replayed(s)) { gen = static_cast<uint32_t>(g_tape.rng[s].next() % n); }
    return tape_next(s, gen) % n;
}

bool chance(Stream s, uint32_t one_in) {
    if (one_in == 0) { return false; }
    if (one_in == 1) { return true; }
    // value 0 must be "no": draw in [0,one_in) and fire on the last value
    return choose(s, one_in) == one_in - 1;
}

uint64_t choose64(Stream s) {
    uint64_t hi = choose(s, 0xffffffffU);
    uint64_t lo = choose(s, 0xffffffffU);
    return (hi << 32) | lo;
}

// ---------------------------------------------------------------------------------------------
// model state

enum St : int { RUN = 0, BLK_MUTEX, BLK_CV, BLK_FUTEX, BLK_JOIN, BLK_ONCE, BLK_SLEEP, DONE };
static const char* st_name[] = {"runnable", "mutex", "condvar", "futex", "join", "once", "sleep", "done"};

struct MutexSt {
    int owner = -1;
    int count = 0;
    int id = 0;
};

struct Th {
    int id = 0;
    pthread_t real{};
    pthread_cond_t cv = PTHREAD_COND_INITIALIZER;
    St st = RUN;
    bool started = false;
    void* obj = nullptr;       // cv / futex address / once control
    MutexSt* mtx = nullptr;    // mutex blocked on (BLK_MUTEX) or to re-acquire (BLK_CV)
    int join_target = -1;
    bool signaled = false;
    bool timed = false;
    bool timedout = false;
    int64_t deadline = 0;
    void* (*fn)(void*) = nullptr;
    void* arg = nullptr;
    void* ret = nullptr;
    bool detached = false;
    bool joined = false;
    char name[20] = {0};
    int64_t prio = 0;
    int objid = 0;
};

enum OnceSt : int { ONCE_NEW = 0, ONCE_RUNNING = 1, ONCE_DONE = 2 };
struct OnceRec { int st = ONCE_NEW; int owner = -1; };

static pthread_mutex_t G = PTHREAD_MUTEX_INITIALIZER;
static bool g_active = false;
static std::vector<Th*> g_ths;
static int g_cur = 0;
static thread_local Th* t_self = nullptr;
static std::unordered_map<void*, MutexSt*> g_mutexes;
static std::unordered_map<void*, int> g_objids;
static std::unordered_map<void*, OnceRec> g_once;
static int g_next_objid = 1;
static int64_t g_now = 0;
static uint64_t g_steps = 0;
static uint64_t g_last_progress_step = 0;
static uint64_t g_event_seq = 0;
static uint64_t g_hash = 1469598103934665603ULL;
static uint64_t g_sig = 1469598103934665603ULL;
static uint64_t g_choice_points = 0;
static uint64_t g_max_enabled = 0;
static uint64_t g_switches = 0;
static RunConfig g_cfg;
static std::map<std::string, std::string> g_env;

// per-run strategy
static int g_strategy = 0;          // 0 nonpreemptive, 1 random, 2 sticky, 3 pct, 4 starve
static uint32_t g_sticky_p = 16;
static int g_starve_victim = -1;
static uint64_t g_starve_until = 0;
static uint32_t g_pct_change_one_in = 200;
static int64_t g_pct_low = -1;
static int64_t g_tick_ns = 1000;
static uint32_t g_spurious_one_in = 0;
static const char* strategy_names[] = {"nonpreemptive", "random", "sticky", "pct", "starve"};

// result accumulation (per worker run index)
struct ExtraViolation { std::string cls, sig, detail; };
struct Result {
    bool violation = false;
    std::string cls, sig, detail;
    std::vector<ExtraViolation> more;   // further distinct signatures of the same run (enumeration modes)
    std::map<std::string, uint64_t> probes, faults;
    std::string notes;
    std::string sample;
    std::map<std::string, std::string> fields;
    int nontrivial_override = -1;
    std::map<std::string, uint64_t> strategies;
    uint64_t subruns = 0;
    int64_t simtime_ns = 0;
};
static Result g_res;
static int64_t g_wall_start_ns = 0;
static int64_t real_now_ns() {
    struct timespec ts;
    __real_clock_gettime(CLOCK_MONOTONIC, &ts);
    return static_cast<int64_t>(ts.tv_sec) * 1000000000LL + ts.tv_nsec;
}

static RunInfo g_info;
static inline void hash_mix(uint64_t& h, uint64_t v) {
    for (int i = 0; i < 8; ++i) {
        h ^= (v >> (i * 8)) & 0xff;
        h *= 1099511628211ULL;
    }
}

void mix_hash(uint64_t v) { hash_mix(g_hash, v); }
void add_to_signature(uint64_t v) { hash_mix(g_sig, v); }

static int objid_of(void* p) {
    auto it = g_objids.find(p);
    if (it != g_objids.end()) { return it->second; }
    int id = g_next_objid++;
    g_objids.emplace(p, id);
    return id;
}

// last events of the run (thread, operation kind) for the rendered trace of a violation
struct TraceEv { int thread; int kind; };
static TraceEv g_trace[256];
static uint64_t g_trace_n = 0;
static const char* kind_name(int k) {
    switch (k) {
        case 1: return "create";
        case 2: return "exit";
        case 3: return "join";
        case 4: return "lock";
        case 5: return "trylock";
        case 6: return "unlock";
        case 7: return "wait";
        case 8: return "timedwait";
        case 9: return "signal";
        case 10: return "broadcast";
        case 11: return "futex-wait";
        case 12: return "futex-wake";
        case 14: return "sleep";
        case 20: return "io/yield";
        default: return "op";
    }
}

static void log_op(int kind, void* obj) {
    ++g_event_seq;
    g_trace[g_trace_n++ % 256] = TraceEv{g_cur, kind};
    static const bool trace = __real_getenv("VERIF_TRACE") != nullptr;
    if (trace) { fprintf(stderr, "[ev] run %" PRIu64 " t%d k%d\n", g_info.index, g_cur, kind); }
    // Only (thread, operation kind) is hashed. Object identities are left out on purpose: first-seen numbering
    // of addresses depends on heap address reuse, which depends on what the worker process ran before.
    (void)obj;
    uint64_t v = (static_cast<uint64_t>(g_cur) << 40) ^ (static_cast<uint64_t>(kind) << 32);
    hash_mix(g_hash, v);
    hash_mix(g_sig, v);
}

bool active() { return g_active; }
bool quiet() { return g_quiet > 0; }
QuietScope::QuietScope() { ++g_quiet; }
QuietScope::~QuietScope() { --g_quiet; }

void probe(const char* name, uint64_t n) { g_res.probes[name] += n; }
void fault_fired(const char* kind, uint64_t n) { g_res.faults[kind] += n; }
void note(const std::string& s) {
    if (g_res.notes.size() < 4000) { g_res.notes += s; g_res.notes += "; "; }
}
void set_sample(const std::string& j) { g_res.sample = j; }
void debug(const std::string& s) {
    static const bool verbose = __real_getenv("VERIF_VERBOSE") != nullptr;
    if (verbose) { fprintf(stderr, "[verif] %s\n", s.c_str()); }
}
void set_nontrivial(bool v) { g_res.nontrivial_override = v ? 1 : 0; }
void set_field(const std::string& name, const std::string& json_value) { g_res.fields[name] = json_value; }
int current_thread() { return t_self ? t_self->id : 0; }
void name_thread(const char* role) {
    if (t_self) { snprintf(t_self->name, sizeof(t_self->name), "%s", role); }
}
uint64_t event_seq() { return g_event_seq; }
uint64_t steps() { return g_steps; }
int64_t now_ns() { return g_now; }
int live_threads() {
    int n = 0;
    for (auto* t : g_ths) { if (t->st != DONE) { ++n; } }
    return n;
}

void set_env(const std::string& name, const std::string& value) { g_env[name] = value; }
void clear_env() { g_env.clear(); }
static std::map<std::string, unsigned long> g_values;
void set_value(const std::string& name, unsigned long value) { g_values[name] = value; }
void clear_values() { g_values.clear(); }
static size_t g_decomp_clamp = 0;
void set_decomp_clamp(size_t bytes) { g_decomp_clamp = bytes; }
size_t decomp_clamp() { return g_quiet > 0 ? 0 : g_decomp_clamp; }
static int g_compress_fail_at = -1;
static int g_compress_calls = 0;
static uint64_t g_compress_failures = 0;
void set_compress_fail_at(int call) { g_compress_fail_at = call; g_compress_calls = 0; g_compress_failures = 0; }
int compress_fail_at() {
    if (g_quiet > 0 || g_compress_fail_at < 0) { return -1; }
    return g_compress_fail_at - g_compress_calls;   // 0 = this call fails
}
void count_compress_call(bool failed) { ++g_compress_calls; if (failed) { ++g_compress_failures; } }
uint64_t compress_failures() { return g_compress_failures; }
// fault: the n-th pthread_create() after this call fails with EAGAIN (thread limit, no memory for the stack)
static int g_create_fail_at = -1;
static int g_creates = 0;
static uint64_t g_create_failures = 0;
void set_thread_create_fail_at(int n) { g_create_fail_at = n; g_creates = 0; g_create_failures = 0; }
uint64_t thread_create_failures() { return g_create_failures; }

// ---------------------------------------------------------------------------------------------
// result line

static void print_result_line(bool fatal_flag) {
    std::string o = "{";
    char b[256];
    snprintf(b, sizeof(b), "\"i\":%" PRIu64 ",\"seed\":%" PRIu64 ",\"mode\":\"%s\"", g_info.index, g_info.seed, json_escape(g_info.mode).c_str());
    o += b;
    o += g_res.violation ? ",\"status\":\"violation\"" : ",\"status\":\"ok\"";
    if (g_res.violation) {
        o += ",\"class\":\"" + json_escape(g_res.cls) + "\"";
        o += ",\"sig\":\"" + json_escape(g_res.sig) + "\"";
        o += ",\"detail\":\"" + json_escape(g_res.detail) + "\"";
        o += fatal_flag ? ",\"fatal\":true" : ",\"fatal\":false";
        o += ",\"more\":[";
        for (size_t k = 0; k < g_res.more.size(); ++k) {
            if (k) { o += ","; }
            o += "{\"class\":\"" + json_escape(g_res.more[k].cls) + "\",\"sig\":\"" + json_escape(g_res.more[k].sig) + "\",\"detail\":\"" + json_escape(g_res.more[k].detail.substr(0, 1500)) + "\"}";
        }
        o += "]";
    }
    snprintf(b, sizeof(b), ",\"hash\":\"%016" PRIx64 "\",\"schedsig\":\"%016" PRIx64 "\",\"steps\":%" PRIu64 ",\"switches\":%" PRIu64 ",\"choice_points\":%" PRIu64 ",\"max_enabled\":%" PRIu64 ",\"simtime_us\":%" PRId64 ",\"subruns\":%" PRIu64,
             g_hash, g_sig, g_steps, g_switches, g_choice_points, g_max_enabled, (g_res.simtime_ns + g_now) / 1000, g_res.subruns);
    o += b;
    bool nontrivial = g_choice_points > 0 || !g_res.faults.empty();
    if (g_res.nontrivial_override >= 0) { nontrivial = g_res.nontrivial_override == 1; }
    o += nontrivial ? ",\"nontrivial\":true" : ",\"nontrivial\":false";
    snprintf(b, sizeof(b), ",\"wall_us\":%" PRId64, (real_now_ns() - g_wall_start_ns) / 1000); // informational only, never hashed
    o += b;
    auto dump_map = [&](const char* key, const std::map<std::string, uint64_t>& m) {
        o += ",\"";
        o += key;
        o += "\":{";
        bool first = true;
        for (const auto& kv : m) {
            if (!first) { o += ","; }
            first = false;
            snprintf(b, sizeof(b), "\"%s\":%" PRIu64, json_escape(kv.first).c_str(), kv.second);
            o += b;
        }
        o += "}";
    };
    dump_map("faults", g_res.faults);
    dump_map("probes", g_res.probes);
    dump_map("strategies", g_res.strategies);
    if (!g_res.sample.empty()) { o += ",\"sample\":" + g_res.sample; }
    for (const auto& kv : g_res.fields) { o += ",\"" + json_escape(kv.first) + "\":" + kv.second; }
    if (!g_res.notes.empty()) { o += ",\"notes\":\"" + json_escape(g_res.notes) + "\""; }
    if (g_res.violation) {
        // the last events before the violation, run-length coded: "thread:op xN"
        std::string tr;
        const uint64_t from = g_trace_n > 200 ? g_trace_n - 200 : 0;
        std::string last;
        int rep = 0;
        auto flush = [&]() {
            if (!last.empty()) {
                tr += last;
                if (rep > 1) { tr += " x" + std::to_string(rep); }
                tr += "; ";
            }
        };
        for (uint64_t k = from; k < g_trace_n; ++k) {
            const TraceEv& e = g_trace[k % 256];
            std::string nm = "T" + std::to_string(e.thread);
            if (e.thread >= 0 && static_cast<size_t>(e.thread) < g_ths.size() && g_ths[static_cast<size_t>(e.thread)]->name[0]) {
                nm += std::string{"("} + g_ths[static_cast<size_t>(e.thread)]->name + ")";
            }
            const std::string cur = nm + ":" + kind_name(e.kind);
            if (cur == last) { ++rep; } else { flush(); last = cur; rep = 1; }
        }
        flush();
        o += ",\"trace\":\"" + json_escape(tr) + "\"";
        o += ",\"tape\":[";
        for (int s = 0; s < S_N; ++s) {
            if (s) { o += ","; }
            o += "[";
            // in replay mode print the consumed prefix of the given tape
            size_t n = g_tape.v[s].size();
            for (size_t k = 0; k < n; ++k) {
                if (k) { o += ","; }
                snprintf(b, sizeof(b), "%u", g_tape.v[s][k]);
                o += b;
            }
            o += "]";
        }
        o += "]";
    }
    o += "}\n";
    fputs(o.c_str(), stdout);
    fflush(stdout);
}

static std::string describe_threads() {
    std::string d;
    char b[256];
    for (auto* t : g_ths) {
        snprintf(b, sizeof(b), "[T%d '%s' %s", t->id, t->name, st_name[t->st]);
        d += b;
        if (t->st == BLK_MUTEX && t->mtx) { snprintf(b, sizeof(b), " m%d(owner T%d)", t->mtx->id, t->mtx->owner); d += b; }
        if (t->st == BLK_CV) { snprintf(b, sizeof(b), " cv%d%s", t->objid, t->timed ? " timed" : ""); d += b; }
        if (t->st == BLK_FUTEX) { snprintf(b, sizeof(b), " futex%d%s", t->objid, t->timed ? " timed" : ""); d += b; }
        if (t->st == BLK_JOIN) { snprintf(b, sizeof(b), " join T%d", t->join_target); d += b; }
        d += "] ";
    }
    return d;
}

// role signature of the blocked set: names and states only (stable across addresses)
static std::string blocked_signature() {
    std::vector<std::string> parts;
    for (auto* t : g_ths) {
        if (t->st == DONE) { continue; }
        std::string n = t->name[0] ? t->name : (t->id == 0 ? "main" : "thread");
        if (n.size() > 1 && n[0] == 'T' && n[1] >= '0' && n[1] <= '9') { n = "thread"; } // unnamed: no ids in signatures
        parts.push_back(n + ":" + st_name[t->st]);
    }
    std::sort(parts.begin(), parts.end());
    parts.erase(std::unique(parts.begin(), parts.end()), parts.end());
    std::string s;
    for (auto& p : parts) { if (!s.empty()) { s += ","; } s += p; }
    return s;
}

// livelock: the polling threads are caught in an arbitrary state, so only the role names go into the signature
static std::string live_names_signature() {
    std::vector<std::string> parts;
    for (auto* t : g_ths) {
        if (t->st == DONE) { continue; }
        std::string n = t->name[0] ? t->name : (t->id == 0 ? "main" : "thread");
        if (n.size() > 1 && n[0] == 'T' && n[1] >= '0' && n[1] <= '9') { n = "thread"; }
        parts.push_back(n);
    }
    std::sort(parts.begin(), parts.end());
    parts.erase(std::unique(parts.begin(), parts.end()), parts.end());
    std::string s;
    for (auto& p : parts) { if (!s.empty()) { s += ","; } s += p; }
    return s;
}

// Fault context of the current run appended to every violation signature (oracle and scheduler ones alike), so that a
// known finding that only exists under one injected fault kind can be listed without hiding the same symptom elsewhere.
static std::string g_sig_tag;
void set_signature_tag(const std::string& tag) { g_sig_tag = tag; }

void report(const char* cls, const std::string& sig_in, const std::string& detail) {
    const std::string sig = sig_in + g_sig_tag;
    if (!g_res.violation) {
        g_res.violation = true;
        g_res.cls = cls;
        g_res.sig = sig;
        g_res.detail = detail;
        return;
    }
    // keep every further *distinct* signature: one run of an enumeration mode covers hundreds of fault points, and a
    // known finding reported first must not hide a different violation found later in the same run
    if (sig == g_res.sig || g_res.more.size() >= 24) { return; }
    for (const auto& m : g_res.more) {
        if (m.sig == sig) { return; }
    }
    g_res.more.push_back(ExtraViolation{cls, sig, detail});
}

[[noreturn]] void fatal(const char* cls, const std::string& sig, const std::string& detail) {
    report(cls, sig, detail);
    print_result_line(true);
    _exit(3);
}

// ---------------------------------------------------------------------------------------------
// scheduler

static inline void lockG() { __real_pthread_mutex_lock(&G); }
static inline void unlockG() { __real_pthread_mutex_unlock(&G); }

static bool enabled(const Th* t) {
    switch (t->st) {
        case RUN: return true;
        case BLK_MUTEX: return t->mtx->owner == -1;
        case BLK_CV: return (t->signaled || (t->timed && g_now >= t->deadline)) && t->mtx->owner == -1;
        case BLK_FUTEX: return t->signaled || (t->timed && g_now >= t->deadline);
        case BLK_JOIN: return g_ths[static_cast<size_t>(t->join_target)]->st == DONE;
        case BLK_ONCE: return g_once.find(t->obj) == g_once.end();
        case BLK_SLEEP: return g_now >= t->deadline;
        case DONE: return false;
    }
    return false;
}

static uint32_t strategy_pick(const std::vector<Th*>& cand, bool cur_enabled) {
    const uint32_t n = static_cast<uint32_t>(cand.size());
    Rng& r = g_tape.rng[S_SCHED];
    switch (g_strategy) {
        case 1: return static_cast<uint32_t>(r.next() % n);
        case 2: {
            if (cur_enabled && (r.next() % g_sticky_p) != 0) { return 0; }
            return static_cast<uint32_t>(r.next() % n);
        }
        case 3: {
            if (cur_enabled && (r.next() % g_pct_change_one_in) == 0) {
                cand[0]->prio = g_pct_low--;
            }
            uint32_t best = 0;
            for (uint32_t i = 1; i < n; ++i) {
                if (cand[i]->prio > cand[best]->prio) { best = i; }
            }
            return best;
        }
        case 4: {
            // starve one victim for a while, random otherwise
            std::vector<uint32_t> ok;
            for (uint32_t i = 0; i < n; ++i) {
                if (!(g_steps < g_starve_until && cand[i]->id == g_starve_victim)) { ok.push_back(i); }
            }
            if (ok.empty()) { return 0; }
            if (cur_enabled && (r.next() % 3) != 0 && !(g_steps < g_starve_until && cand[0]->id == g_starve_victim)) { return 0; }
            return ok[r.next() % ok.size()];
        }
        default: return 0;
    }
}

// Pick the next thread to run. Called with G held by the thread that currently has the baton.
static Th* pick_next(Th* me) {
    static std::vector<Th*> cand;
    for (;;) {
        cand.clear();
        const bool cur_enabled = me->st != DONE && enabled(me);
        if (cur_enabled) { cand.push_back(me); }
        for (auto* t : g_ths) {
            if (t != me && enabled(t)) { cand.push_back(t); }
        }
        if (cand.empty()) {
            int64_t dl = INT64_MAX;
            for (auto* t : g_ths) {
                if ((t->st == BLK_CV || t->st == BLK_FUTEX) && t->timed && t->deadline < dl) { dl = t->deadline; }
                if (t->st == BLK_SLEEP && t->deadline < dl) { dl = t->deadline; }
            }
            if (dl == INT64_MAX || dl <= g_now) {
                // no thread can ever run again
                fatal("deadlock", std::string("sched.deadlock/") + blocked_signature(), "all threads blocked: " + describe_threads());
            }
            g_now = dl;
            probe("clock jumped to next deadline");
            continue;
        }
        ++g_steps;
        g_now += g_tick_ns;
        if (g_steps - g_last_progress_step > g_cfg.stall_budget || g_steps > g_cfg.step_budget) {
            fatal("livelock", std::string("sched.livelock/") + live_names_signature(),
                  std::string{g_steps > g_cfg.step_budget ? "step budget exhausted: " : "no progress (no byte moved, no element delivered, no thread started or finished) for "} +
                      std::to_string(g_steps - g_last_progress_step) + " scheduling steps: " + describe_threads());
        }
        if (cand.size() > g_max_enabled) { g_max_enabled = cand.size(); }
        uint32_t idx = 0;
        if (cand.size() > 1) {
            if (g_quiet > 0 || !g_cfg.preemptive) {
                idx = 0;
            } else {
                ++g_choice_points;
                uint32_t gen = 0;
                if (!g_tape.replayed(S_SCHED)) { gen = strategy_pick(cand, cur_enabled); }
                idx = tape_next(S_SCHED, gen) % static_cast<uint32_t>(cand.size());
            }
        }
        return cand[idx];
    }
}

static void park(Th* me) {
    while (g_cur != me->id) { __real_pthread_cond_wait(&me->cv, &G); }
}

// scheduling point: me->st already describes what me waits for (RUN = just a yield)
static void schedule(Th* me) {
    Th* next = pick_next(me);
    if (next != me) {
        ++g_switches;
        g_cur = next->id;
        __real_pthread_cond_signal(&next->cv);
        park(me);
    }
}

static void schedule_exit(Th* me) {
    // me is DONE; hand the baton over and never come back
    Th* next = pick_next(me);
    ++g_switches;
    g_cur = next->id;
    __real_pthread_cond_signal(&next->cv);
}

static inline bool sim_thread() { return g_active && t_self != nullptr; }

// Scheduling point *before* an operation takes effect (G held): separates the plain/atomic accesses
// that precede the call from the call itself, e.g. "predicate evaluated, not yet waiting".
static inline void pre_point(Th* me) {
    me->st = RUN;
    schedule(me);
}

void progress() { g_last_progress_step = g_steps; }

void sched_point(const char* name) {
    if (!sim_thread()) { return; }
    lockG();
    Th* me = t_self;
    log_op(20, nullptr);
    if (name) { (void)name; }
    me->st = RUN;
    schedule(me);
    unlockG();
}

static MutexSt* mutex_of(void* m) {
    auto it = g_mutexes.find(m);
    if (it != g_mutexes.end()) { return it->second; }
    auto* ms = new MutexSt;
    ms->id = objid_of(m);
    g_mutexes.emplace(m, ms);
    return ms;
}

static void choose_strategy() {
    if (!g_cfg.preemptive || g_quiet > 0) {
        g_strategy = 0;
        g_tick_ns = 1000;
        g_spurious_one_in = 0;
        g_res.strategies[strategy_names[0]]++;
        return;
    }
    // all of these are drawn from S_CONF so that the replay sees the same values
    g_strategy = 1 + static_cast<int>(choose(S_CONF, 4));
    static const uint32_t sticky_ps[] = {4, 16, 64};
    g_sticky_p = sticky_ps[choose(S_CONF, 3)];
    static const uint32_t pct_ps[] = {8, 40, 200};
    g_pct_change_one_in = pct_ps[choose(S_CONF, 3)];
    g_pct_low = -1;
    g_starve_victim = static_cast<int>(choose(S_CONF, 6));
    g_starve_until = 20ULL << choose(S_CONF, 8);
    static const int64_t ticks[] = {1000, 50000, 3000000};
    g_tick_ns = ticks[choose(S_CONF, 3)];
    static const uint32_t spur[] = {0, 64, 8};
    g_spurious_one_in = g_cfg.spurious ? spur[choose(S_CONF, 3)] : 0;
    g_res.strategies[strategy_names[g_strategy]]++;
}

void begin_run(const RunConfig& cfg) {
    if (g_active) { fatal("harness-error", "harness/begin_run-nested", "begin_run while active"); }
    g_cfg = cfg;
    for (auto* t : g_ths) { delete t; }
    g_ths.clear();
    for (auto& kv : g_mutexes) { delete kv.second; }
    g_mutexes.clear();
    g_objids.clear();
    g_once.clear();
    g_next_objid = 1;
    g_res.simtime_ns += g_now;
    g_now = 0;
    g_last_progress_step = g_steps;
    g_create_fail_at = -1;
    g_sig_tag.clear();
    g_res.subruns++;
    auto* mainth = new Th;
    mainth->id = 0;
    mainth->real = pthread_self();
    mainth->started = true;
    snprintf(mainth->name, sizeof(mainth->name), "main");
    g_ths.push_back(mainth);
    t_self = mainth;
    g_cur = 0;
    choose_strategy();
    hash_mix(g_hash, 0xbeef);
    g_active = true;
}

void end_run() {
    if (!g_active) { return; }
    lockG();
    int leaked = 0;
    std::string names;
    for (auto* t : g_ths) {
        if (t->id != 0 && t->st != DONE) {
            ++leaked;
            names += t->name[0] ? t->name : "thread";
            names += ",";
        }
    }
    if (leaked) {
        fatal("thread-leak", "sched.thread-leak/" + names, "threads still alive at end of run: " + describe_threads());
    }
    g_active = false;
    unlockG();
    // reap real threads that were never joined (detached ones clean up themselves)
    for (auto* t : g_ths) {
        if (t->id != 0 && !t->joined && !t->detached) {
            __real_pthread_join(t->real, nullptr);
            t->joined = true;
        }
    }
    t_self = nullptr;
}

// ---------------------------------------------------------------------------------------------
// thread create / join

static void* trampoline(void* p) {
    Th* me = static_cast<Th*>(p);
    t_self = me;
    lockG();
    park(me);
    me->started = true;
    unlockG();
    void* ret = me->fn(me->arg);
    lockG();
    me->ret = ret;
    me->st = DONE;
    g_last_progress_step = g_steps;
    log_op(2, nullptr);
    schedule_exit(me);
    unlockG();
    return ret;
}

static int sim_pthread_create(pthread_t* th, const pthread_attr_t* attr, void* (*fn)(void*), void* arg) {
    lockG();
    Th* me = t_self;
    pre_point(me);
    if (g_create_fail_at >= 0 && g_quiet == 0 && g_creates++ == g_create_fail_at) {
        ++g_create_failures;
        unlockG();
        fault_fired("pthread_create EAGAIN");
        return EAGAIN;
    }
    auto* t = new Th;
    t->id = static_cast<int>(g_ths.size());
    t->fn = fn;
    t->arg = arg;
    t->st = RUN;
    t->prio = static_cast<int64_t>(g_tape.replayed(S_SCHED) ? 0 : (g_tape.rng[S_SCHED].next() % 1000000));
    if (attr) {
        int ds = 0;
        pthread_attr_getdetachstate(attr, &ds);
        t->detached = (ds == PTHREAD_CREATE_DETACHED);
    }
    snprintf(t->name, sizeof(t->name), "T%d", t->id);
    g_ths.push_back(t);
    int rc = __real_pthread_create(&t->real, attr, trampoline, t);
    if (rc != 0) {
        g_ths.pop_back();
        delete t;
        unlockG();
        return rc;
    }
    *th = t->real;
    g_last_progress_step = g_steps;
    log_op(1, nullptr);
    me->st = RUN;
    schedule(me);
    unlockG();
    return 0;
}

static Th* find_by_real(pthread_t r) {
    for (auto* t : g_ths) {
        // a detached thread that has ended gives its pthread_t back for reuse: never match it
        if (t->id != 0 && pthread_equal(t->real, r) && !t->joined && !t->detached) { return t; }
    }
    return nullptr;
}

static int sim_pthread_join(pthread_t r, void** retp) {
    lockG();
    Th* me = t_self;
    Th* t = find_by_real(r);
    if (!t) {
        unlockG();
        return __real_pthread_join(r, retp);
    }
    log_op(3, nullptr);
    me->st = BLK_JOIN;
    me->join_target = t->id;
    schedule(me);
    me->st = RUN;
    t->joined = true;
    unlockG();
    return __real_pthread_join(r, retp);
}

// ---------------------------------------------------------------------------------------------
// mutex

static int sim_mutex_lock(pthread_mutex_t* m) {
    lockG();
    Th* me = t_self;
    MutexSt* ms = mutex_of(m);
    log_op(4, m);
    if (ms->owner == me->id) {
        if ((m->__data.__kind & 3) == PTHREAD_MUTEX_RECURSIVE_NP) {
            ++ms->count;
            unlockG();
            return 0;
        }
        fatal("deadlock", "sched.self-deadlock", "thread relocks a non-recursive mutex it owns: " + describe_threads());
    }
    me->st = BLK_MUTEX;
    me->mtx = ms;
    schedule(me);
    me->st = RUN;
    ms->owner = me->id;
    ms->count = 1;
    unlockG();
    return 0;
}

static int sim_mutex_trylock(pthread_mutex_t* m) {
    lockG();
    Th* me = t_self;
    MutexSt* ms = mutex_of(m);
    log_op(5, m);
    me->st = RUN;
    schedule(me);
    int rc = EBUSY;
    if (ms->owner == -1) {
        ms->owner = me->id;
        ms->count = 1;
        rc = 0;
    } else if (ms->owner == me->id && (m->__data.__kind & 3) == PTHREAD_MUTEX_RECURSIVE_NP) {
        ++ms->count;
        rc = 0;
    }
    unlockG();
    return rc;
}

static int sim_mutex_unlock(pthread_mutex_t* m) {
    lockG();
    Th* me = t_self;
    MutexSt* ms = mutex_of(m);
    log_op(6, m);
    if (ms->owner != me->id) {
        // unlocking a mutex that was locked outside the simulation or by nobody: tolerate
        unlockG();
        return 0;
    }
    if (--ms->count > 0) {
        unlockG();
        return 0;
    }
    ++ms->count;
    pre_point(me);
    --ms->count;
    ms->owner = -1;
    me->st = RUN;
    schedule(me);
    unlockG();
    return 0;
}

// ---------------------------------------------------------------------------------------------
// condition variables

static const int64_t REALTIME_BASE_NS = 1700000000LL * 1000000000LL;
static const int64_t MONOTONIC_BASE_NS = 1000LL * 1000000000LL;

static int64_t abs_to_sim(clockid_t clk, const struct timespec* ts) {
    int64_t v = static_cast<int64_t>(ts->tv_sec) * 1000000000LL + ts->tv_nsec;
    return v - (clk == CLOCK_REALTIME ? REALTIME_BASE_NS : MONOTONIC_BASE_NS);
}

static int sim_cond_wait_common(pthread_cond_t* c, pthread_mutex_t* m, bool timed, int64_t deadline) {
    lockG();
    Th* me = t_self;
    MutexSt* ms = mutex_of(m);
    log_op(timed ? 8 : 7, c);
    pre_point(me); // still holding the mutex, not yet a waiter: the classic lost wake-up window
    if (ms->owner == me->id) {
        ms->owner = -1;
        ms->count = 0;
    }
    me->st = BLK_CV;
    me->obj = c;
    me->objid = objid_of(c);
    me->mtx = ms;
    me->signaled = false;
    me->timed = timed;
    me->deadline = deadline;
    if (g_spurious_one_in && chance(S_WAKE, g_spurious_one_in)) {
        me->signaled = true;
        probe("spurious wake-up (condvar)");
    }
    schedule(me);
    int rc = 0;
    if (!me->signaled && me->timed && g_now >= me->deadline) {
        rc = ETIMEDOUT;
        probe("condvar timeout fired");
    }
    me->st = RUN;
    me->obj = nullptr;
    ms->owner = me->id;
    ms->count = 1;
    unlockG();
    return rc;
}

static int sim_cond_signal(pthread_cond_t* c, bool all) {
    lockG();
    Th* me = t_self;
    log_op(all ? 10 : 9, c);
    pre_point(me);
    std::vector<Th*> w;
    for (auto* t : g_ths) {
        if (t->st == BLK_CV && t->obj == c && !t->signaled) { w.push_back(t); }
    }
    if (!w.empty()) {
        if (all) {
            for (auto* t : w) { t->signaled = true; }
        } else {
            w[choose(S_WAKE, static_cast<uint32_t>(w.size()))]->signaled = true;
        }
    }
    me->st = RUN;
    schedule(me);
    unlockG();
    return 0;
}

// ---------------------------------------------------------------------------------------------
// futex (std::future, static-init guards)

static long sim_futex(int* addr, int op, int val, const struct timespec* timeout, int /*val3*/) {
    const int cmd = op & FUTEX_CMD_MASK;
    if (cmd == FUTEX_WAIT || cmd == FUTEX_WAIT_BITSET) {
        lockG();
        Th* me = t_self;
        log_op(11, addr);
        pre_point(me);
        if (__atomic_load_n(addr, __ATOMIC_SEQ_CST) != val) {
            me->st = RUN;
            schedule(me);
            unlockG();
            errno = EAGAIN;
            return -1;
        }
        me->st = BLK_FUTEX;
        me->obj = addr;
        me->objid = objid_of(addr);
        me->signaled = false;
        me->timed = timeout != nullptr;
        if (timeout) {
            if (cmd == FUTEX_WAIT) {
                me->deadline = g_now + static_cast<int64_t>(timeout->tv_sec) * 1000000000LL + timeout->tv_nsec;
            } else {
                me->deadline = abs_to_sim((op & FUTEX_CLOCK_REALTIME) ? CLOCK_REALTIME : CLOCK_MONOTONIC, timeout);
            }
        }
        if (g_spurious_one_in && chance(S_WAKE, g_spurious_one_in)) {
            me->signaled = true;
            probe("spurious wake-up (futex)");
        }
        schedule(me);
        long rc = 0;
        if (!me->signaled && me->timed && g_now >= me->deadline) {
            errno = ETIMEDOUT;
            rc = -1;
        }
        me->st = RUN;
        me->obj = nullptr;
        unlockG();
        return rc;
    }
    if (cmd == FUTEX_WAKE || cmd == FUTEX_WAKE_BITSET) {
        lockG();
        Th* me = t_self;
        log_op(12, addr);
        pre_point(me);
        std::vector<Th*> w;
        for (auto* t : g_ths) {
            if (t->st == BLK_FUTEX && t->obj == addr && !t->signaled) { w.push_back(t); }
        }
        long woken = 0;
        if (val > 0 && static_cast<size_t>(val) >= w.size()) {
            for (auto* t : w) { t->signaled = true; ++woken; }
        } else {
            while (woken < val && !w.empty()) {
                const size_t k = choose(S_WAKE, static_cast<uint32_t>(w.size()));
                w[k]->signaled = true;
                w.erase(w.begin() + static_cast<long>(k));
                ++woken;
            }
        }
        me->st = RUN;
        schedule(me);
        unlockG();
        return woken;
    }
    fatal("harness-error", "sim/unsupported-futex-op", "unsupported futex op " + std::to_string(op));
}

// ---------------------------------------------------------------------------------------------
// pthread_once

static int sim_once(pthread_once_t* ctrl, void (*init)(void)) {
    // The control word itself says NEW (0) or DONE (2); only "running in thread t" lives in the model, so
    // that a new once_flag at a recycled heap address is never mistaken for a completed one.
    // pthread_once events are neither hashed nor given an object id: whether a process-wide control is still
    // consulted at all can depend on what earlier runs of the same worker process did
    lockG();
    Th* me = t_self;
    for (;;) {
        if (*reinterpret_cast<volatile int*>(ctrl) == 2) {
            unlockG();
            return 0;
        }
        auto it = g_once.find(ctrl);
        if (it == g_once.end()) {
            OnceRec r;
            r.st = ONCE_RUNNING;
            r.owner = me->id;
            g_once.emplace(ctrl, r);
            break;
        }
        // running in another thread: block
        me->st = BLK_ONCE;
        me->obj = ctrl;
        schedule(me);
        me->st = RUN;
    }
    unlockG();
    // No scheduling point on the uncontended paths: a process-wide control (e.g. libgcc's unwinder
    // table) is initialised only once per process, and a run must not depend on whether an earlier
    // run of the same worker process already did that.
    try {
        init();
    } catch (...) {
        lockG();
        g_once.erase(ctrl);
        unlockG();
        throw;
    }
    lockG();
    *reinterpret_cast<volatile int*>(ctrl) = 2;
    g_once.erase(ctrl);
    unlockG();
    return 0;
}

// ---------------------------------------------------------------------------------------------
// worker main

static bool load_replay(const std::string& path, RunInfo& info) {
    FILE* f = fopen(path.c_str(), "r");
    if (!f) { return false; }
    char* line = nullptr;
    size_t cap = 0;
    ssize_t len = 0;
    for (int i = 0; i < S_N; ++i) { g_tape.v[i].clear(); }
    while ((len = getline(&line, &cap, f)) > 0) {
        std::string l(line, static_cast<size_t>(len));
        while (!l.empty() && (l.back() == '\n' || l.back() == '\r')) { l.pop_back(); }
        if (l.empty() || l[0] == '#') { continue; }
        size_t sp = l.find(' ');
        std::string key = l.substr(0, sp);
        std::string rest = sp == std::string::npos ? "" : l.substr(sp + 1);
        if (key == "mode") { info.mode = rest; }
        else if (key == "seed") { info.seed = strtoull(rest.c_str(), nullptr, 10); }
        else if (key == "index") { info.index = strtoull(rest.c_str(), nullptr, 10); }
        else if (key == "explore") {
            // hybrid replay: "explore <stream> <seed>" - this stream is generated by the PRNG
            char* p = const_cast<char*>(rest.c_str());
            long st = strtol(p, &p, 10);
            uint64_t sd = strtoull(p, &p, 10);
            if (st >= 0 && st < S_N) {
                g_tape.explore_stream[st] = true;
                g_tape.rng[st].seed(sd * 0x9e3779b97f4a7c15ULL + static_cast<uint64_t>(st));
                g_tape.v[st].clear();
            }
        }
        else if (key == "param") {
            size_t sp2 = rest.find(' ');
            if (sp2 != std::string::npos) { info.params[rest.substr(0, sp2)] = rest.substr(sp2 + 1); }
        } else if (key == "stream") {
            char* p = const_cast<char*>(rest.c_str());
            long s = strtol(p, &p, 10);
            if (s < 0 || s >= S_N) { continue; }
            while (*p) {
                while (*p == ' ') { ++p; }
                if (!*p) { break; }
                g_tape.v[s].push_back(static_cast<uint32_t>(strtoul(p, &p, 10)));
            }
        }
    }
    free(line);
    fclose(f);
    for (int i = 0; i < S_N; ++i) {
        if (g_tape.explore_stream[i]) { g_tape.v[i].clear(); }
    }
    return true;
}

int worker_main(int argc, char** argv, const RunFn& run_fn) {
    RunInfo base;
    uint64_t start = 0, count = 1, stride = 1;
    std::string replay_path, record_path;
    for (int i = 1; i < argc; ++i) {
        std::string a = argv[i];
        auto val = [&]() -> std::string { return (i + 1 < argc) ? std::string(argv[++i]) : std::string(); };
        if (a == "--mode") { base.mode = val(); }
        else if (a == "--seed") { base.seed = strtoull(val().c_str(), nullptr, 10); }
        else if (a == "--start") { start = strtoull(val().c_str(), nullptr, 10); }
        else if (a == "--count") { count = strtoull(val().c_str(), nullptr, 10); }
        else if (a == "--stride") { stride = strtoull(val().c_str(), nullptr, 10); }
        else if (a == "--replay") { replay_path = val(); }
        else if (a == "--record-tape") { record_path = val(); }
        else if (a.size() > 2 && a[0] == '-' && a[1] == '-') { std::string k = a.substr(2); base.params[k] = val(); }
    }
    setvbuf(stdout, nullptr, _IOFBF, 1 << 16);
    {
        // real descriptors stay below the simulated ones (simfs::FD_BASE = 1000)
        struct rlimit rl;
        if (getrlimit(RLIMIT_NOFILE, &rl) == 0 && rl.rlim_cur > 1000) {
            rl.rlim_cur = 1000;
            setrlimit(RLIMIT_NOFILE, &rl);
        }
    }
    if (!record_path.empty()) {
        g_tape.record_fd = ::open(record_path.c_str(), O_WRONLY | O_CREAT | O_TRUNC, 0644);
    }
    if (!replay_path.empty()) {
        RunInfo info = base;
        if (!load_replay(replay_path, info)) {
            fprintf(stderr, "cannot read replay file %s\n", replay_path.c_str());
            return 2;
        }
        g_info = info;
        g_res = Result{};
        g_sig_tag.clear();
        g_tape.reset_replay();
        g_wall_start_ns = real_now_ns();
        g_hash = 1469598103934665603ULL; g_sig = g_hash; g_steps = 0; g_event_seq = 0; g_choice_points = 0; g_max_enabled = 0; g_switches = 0; g_now = 0; g_trace_n = 0;
        run_fn(info);
        if (g_active) { end_run(); }
        print_result_line(false);
        return g_res.violation ? 1 : 0;
    }
    int rc = 0;
    for (uint64_t k = 0; k < count; ++k) {
        RunInfo info = base;
        info.index = start + k * stride;
        g_info = info;
        g_res = Result{};
        g_sig_tag.clear();
        g_tape.reset_explore(info.seed, info.index);
        g_wall_start_ns = real_now_ns();
        g_hash = 1469598103934665603ULL; g_sig = g_hash; g_steps = 0; g_event_seq = 0; g_choice_points = 0; g_max_enabled = 0; g_switches = 0; g_now = 0; g_trace_n = 0;
        if (g_tape.record_fd >= 0) {
            char b[64];
            int n = snprintf(b, sizeof(b), "# index %" PRIu64 "\n", info.index);
            ssize_t r = ::write(g_tape.record_fd, b, static_cast<size_t>(n));
            (void)r;
        }
        run_fn(info);
        if (g_active) { end_run(); }
        print_result_line(false);
        if (g_res.violation) { rc = 1; }
    }
    return rc;
}

} // namespace sim

// ---------------------------------------------------------------------------------------------
// the wrapped symbols

using namespace sim;

extern "C" {

int __wrap_pthread_create(pthread_t* th, const pthread_attr_t* attr, void* (*fn)(void*), void* arg) {
    if (!sim_thread()) { return __real_pthread_create(th, attr, fn, arg); }
    return sim_pthread_create(th, attr, fn, arg);
}

int __wrap_pthread_join(pthread_t th, void** ret) {
    if (!sim_thread()) { return __real_pthread_join(th, ret); }
    return sim_pthread_join(th, ret);
}

int __wrap_pthread_detach(pthread_t th) {
    if (sim_thread()) {
        lockG();
        Th* t = find_by_real(th);
        if (t) { t->detached = true; }
        unlockG();
    }
    return __real_pthread_detach(th);
}

int __wrap_pthread_mutex_lock(pthread_mutex_t* m) {
    if (!sim_thread()) { return __real_pthread_mutex_lock(m); }
    return sim_mutex_lock(m);
}

int __wrap_pthread_mutex_trylock(pthread_mutex_t* m) {
    if (!sim_thread()) { return __real_pthread_mutex_trylock(m); }
    return sim_mutex_trylock(m);
}

int __wrap_pthread_mutex_unlock(pthread_mutex_t* m) {
    if (!sim_thread()) { return __real_pthread_mutex_unlock(m); }
    return sim_mutex_unlock(m);
}

int __wrap_pthread_cond_wait(pthread_cond_t* c, pthread_mutex_t* m) {
    if (!sim_thread()) { return __real_pthread_cond_wait(c, m); }
    return sim_cond_wait_common(c, m, false, 0);
}

int __wrap_pthread_cond_timedwait(pthread_cond_t* c, pthread_mutex_t* m, const struct timespec* ts) {
    if (!sim_thread()) { return __real_pthread_cond_timedwait(c, m, ts); }
    return sim_cond_wait_common(c, m, true, abs_to_sim(CLOCK_REALTIME, ts));
}

int __wrap_pthread_cond_clockwait(pthread_cond_t* c, pthread_mutex_t* m, clockid_t clk, const struct timespec* ts) {
    if (!sim_thread()) { return __real_pthread_cond_clockwait(c, m, clk, ts); }
    return sim_cond_wait_common(c, m, true, abs_to_sim(clk, ts));
}

int __wrap_pthread_cond_signal(pthread_cond_t* c) {
    if (!sim_thread()) { return __real_pthread_cond_signal(c); }
    return sim_cond_signal(c, false);
}

int __wrap_pthread_cond_broadcast(pthread_cond_t* c) {
    if (!sim_thread()) { return __real_pthread_cond_broadcast(c); }
    return sim_cond_signal(c, true);
}

int __wrap_pthread_once(pthread_once_t* ctrl, void (*init)(void)) {
    if (!sim_thread()) { return __real_pthread_once(ctrl, init); }
    return sim_once(ctrl, init);
}

long __wrap_syscall(long nr, ...) {
    va_list ap;
    va_start(ap, nr);
    long a[6];
    for (auto& x : a) { x = va_arg(ap, long); }
    va_end(ap);
    if (nr == SYS_futex && sim_thread()) {
        return sim_futex(reinterpret_cast<int*>(a[0]), static_cast<int>(a[1]), static_cast<int>(a[2]),
                         reinterpret_cast<const struct timespec*>(a[3]), static_cast<int>(a[5]));
    }
    return __real_syscall(nr, a[0], a[1], a[2], a[3], a[4], a[5]);
}

int __wrap_clock_gettime(clockid_t clk, struct timespec* ts) {
    if (!sim_thread()) { return __real_clock_gettime(clk, ts); }
    int64_t v = g_now + (clk == CLOCK_REALTIME ? REALTIME_BASE_NS : MONOTONIC_BASE_NS);
    ts->tv_sec = v / 1000000000LL;
    ts->tv_nsec = v % 1000000000LL;
    return 0;
}

int __wrap_nanosleep(const struct timespec* req, struct timespec* rem) {
    if (!sim_thread()) { return __real_nanosleep(req, rem); }
    lockG();
    Th* me = t_self;
    log_op(14, nullptr);
    me->st = BLK_SLEEP;
    me->deadline = g_now + static_cast<int64_t>(req->tv_sec) * 1000000000LL + req->tv_nsec;
    schedule(me);
    me->st = RUN;
    unlockG();
    if (rem) { rem->tv_sec = 0; rem->tv_nsec = 0; }
    return 0;
}

int __wrap_sched_yield(void) {
    if (!sim_thread()) { return __real_sched_yield(); }
    sched_point("sched_yield");
    return 0;
}

int __wrap_prctl(int option, ...) {
    va_list ap;
    va_start(ap, option);
    unsigned long a[4];
    for (auto& x : a) { x = va_arg(ap, unsigned long); }
    va_end(ap);
    if (option == PR_SET_NAME && sim_thread()) {
        lockG();
        snprintf(t_self->name, sizeof(t_self->name), "%s", reinterpret_cast<const char*>(a[0]));
        unlockG();
        return 0;
    }
    return __real_prctl(option, a[0], a[1], a[2], a[3]);
}

unsigned long osmium_verif_value(const char* name, unsigned long default_value) {
    if (!g_active) { return default_value; }
    auto it = g_values.find(name);
    return it == g_values.end() ? default_value : it->second;
}

char* __wrap_getenv(const char* name) {
    if (g_active && name && strncmp(name, "OSMIUM_", 7) == 0) {
        auto it = g_env.find(name);
        if (it == g_env.end()) { return nullptr; }
        return const_cast<char*>(it->second.c_str());
    }
    return __real_getenv(name);
}

} // extern "C"
