// Simulated file layer: in-memory files under /sim/, fd table, soft perturbations and hard faults.
// All libc entry points reach it through ld --wrap (wraps_fs.txt). See DESIGN.md 3.1 / 3.5.
#pragma once

#include <cstdint>
#include <string>
#include <vector>

namespace simfs {

constexpr int FD_BASE = 1000;

void reset();                                              // per run: files, fd table, faults, counters
void put_file(const std::string& path, const std::string& data);
bool get_file(const std::string& path, std::string* out);
bool exists(const std::string& path);
void remove_file(const std::string& path);

// ---- observation
size_t open_fd_count();
std::string describe_open_fds();
void force_close_all();                                    // clean up what a run left behind
uint64_t read_calls(const std::string& path);              // read(2) calls that reached this file
uint64_t write_calls(const std::string& path);
bool is_dirty(const std::string& path);                    // written since the last successful fsync
uint64_t total_syscalls();

// ---- soft perturbation (legal environment behaviour the library must absorb)
struct Soft {
    int chunk_mode = 0;               // 0: full reads, 1: fixed chunk `chunk`, 2: random length per call
    size_t chunk = 0;
    uint32_t short_write_one_in = 0;  // probability 1/n of a short write
    uint32_t eintr_one_in = 0;        // probability 1/n of EINTR on read/write
    std::vector<size_t> cuts;         // absolute offsets a read never crosses (cut enumeration)
    std::string cuts_path;            // file the cuts apply to ("" = all)
};
void set_soft(const Soft& s);

// ---- hard faults (explicit ops attached to the operation they hit)
struct Fault {
    enum Kind : int { READ_ERR_NTH = 1, WRITE_ERR_AT = 2, FSYNC_ERR = 3, CLOSE_ERR_NTH = 4, OPEN_ERR = 5, FTRUNCATE_ERR = 6 };
    Kind kind;
    std::string path;       // file it applies to
    uint64_t n = 0;         // READ_ERR_NTH: the n-th read call (0-based) of that file fails; WRITE_ERR_AT: byte offset; CLOSE_ERR_NTH: n-th close of an fd of this file
    int err = 5;            // errno (EIO)
    bool partial = false;   // WRITE_ERR_AT: first write the bytes below the offset (short write), then fail
    bool sticky = true;     // keeps failing after it fired once
    uint64_t fired = 0;
};
void add_fault(const Fault& f);
const std::vector<Fault>& faults();
uint64_t faults_fired_total();

// ---- a simulated child process behind pipe()/fork()/waitpid() (the Reader's "curl" for URL input)
struct ChildSpec {
    std::string data;                 // what the child writes to its stdout (the pipe)
    size_t write_limit = static_cast<size_t>(-1);   // stops after this many bytes (server closed the connection)
    int exit_code = 0;                // exit status after writing (non-zero: the transfer failed)
    int kill_signal = 0;              // != 0: the child is killed by this signal after writing (wait status without exit code)
    int chunk_mode = 0;               // 0: one write, 1: fixed chunk, 2: random lengths
    size_t chunk = 0;
    bool tiny_writes = true;          // chunk_mode 2 may use writes of 1..16 bytes
    size_t pipe_capacity = 65536;
    bool fork_fails = false;          // fork() returns EAGAIN
};
void set_child(const ChildSpec& spec);    // enables pipe()/fork()/waitpid() simulation for this run
std::string last_pipe_path();             // pseudo path of the last pipe (for read_calls())
size_t children_started();
size_t children_running();                // not yet exited
size_t children_unreaped();               // exited or not, never waited for (zombies)
int last_child_status();

// first-error bookkeeping for oracles: sequence number of the first hard fault returned to the caller
uint64_t first_fault_event();

} // namespace simfs
