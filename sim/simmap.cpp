// Kernel decisions under the mmap-backed index vectors (C12): where a (re)mapping lands, whether growing the
// backing file succeeds. Reached through ld --wrap (wraps_map.txt); real temp files, real pages.
#ifndef _GNU_SOURCE
#define _GNU_SOURCE
#endif
#include "sim.hpp"

#include <cerrno>
#include <cstdarg>
#include <cstring>
#include <sys/mman.h>
#include <sys/statvfs.h>

extern "C" {
void* __real_mmap(void*, size_t, int, int, int, off_t);
void* __real_mremap(void*, size_t, size_t, int, ...);
int __real_munmap(void*, size_t);
int __real_fstatvfs(int, struct statvfs*);
}

namespace sim {
static bool g_move_always = false;
static int g_no_space_at = -1;   // the n-th fstatvfs() of the run reports an (almost) full disk
static int g_statvfs_calls = 0;
static uintptr_t g_bump = 0x500000000000ULL;
void set_map_policy(bool move_always, int no_space_at) {
    g_move_always = move_always;
    g_no_space_at = no_space_at;
    g_statvfs_calls = 0;
}
} // namespace sim

static void* fresh_address(size_t len) {
    const size_t page = 4096;
    const size_t l = (len + page - 1) / page * page;
    void* a = reinterpret_cast<void*>(sim::g_bump);
    sim::g_bump += l + 16 * page; // never reused, with a guard gap
    return a;
}

extern "C" {

void* __wrap_mmap(void* addr, size_t len, int prot, int flags, int fd, off_t off) {
    if (sim::active() && sim::g_move_always && addr == nullptr) {
        void* r = __real_mmap(fresh_address(len), len, prot, flags | MAP_FIXED_NOREPLACE, fd, off);
        if (r != MAP_FAILED) {
            sim::probe("mapping placed at a fresh, never reused address");
            return r;
        }
    }
    return __real_mmap(addr, len, prot, flags, fd, off);
}

void* __wrap_mremap(void* old_addr, size_t old_size, size_t new_size, int flags, ...) {
    if (sim::active() && sim::g_move_always && (flags & MREMAP_MAYMOVE) && !(flags & MREMAP_FIXED)) {
        // the kernel may move the mapping: always do, to an address that was never used before, so that any
        // pointer kept across the resize faults
        void* r = __real_mremap(old_addr, old_size, new_size, MREMAP_MAYMOVE | MREMAP_FIXED, fresh_address(new_size));
        if (r != MAP_FAILED) {
            sim::probe("mremap moved the mapping");
            sim::fault_fired("mapping moved");
            return r;
        }
    }
    return __real_mremap(old_addr, old_size, new_size, flags);
}

int __wrap_munmap(void* addr, size_t len) {
    return __real_munmap(addr, len);
}

int __wrap_fstatvfs(int fd, struct statvfs* st) {
    const int rc = __real_fstatvfs(fd, st);
    if (rc == 0 && sim::active()) {
        // the free space the library sees is part of the simulated environment, not of the machine the check runs on
        st->f_bsize = 4096;
        st->f_bavail = 1ULL << 30;   // 4 TiB free
        if (sim::g_no_space_at >= 0 && sim::g_statvfs_calls++ == sim::g_no_space_at) {
            st->f_bavail = 1; // one block left
            sim::fault_fired("file system reports no space");
        }
    }
    return rc;
}

} // extern "C"
