// LZ4 part of the compressor failure injection (see clamp.cpp); separate because only the harnesses that link
// liblz4 can reference it.
#include "sim.hpp"

extern "C" {
int __real_LZ4_compress_fast(const char*, char*, int, int, int);

int __wrap_LZ4_compress_fast(const char* src, char* dst, int src_size, int dst_capacity, int acceleration) {
    if (sim::active() && sim::compress_fail_at() == 0) {
        sim::count_compress_call(true);
        return 0;
    }
    if (sim::active()) { sim::count_compress_call(false); }
    return __real_LZ4_compress_fast(src, dst, src_size, dst_capacity, acceleration);
}
}
