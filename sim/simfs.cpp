// Simulated file layer (see simfs.hpp).

#ifndef _GNU_SOURCE
#define _GNU_SOURCE
#endif

#include "simfs.hpp"
#include "sim.hpp"

#include <cerrno>
#include <cstdarg>
#include <cstdio>
#include <cstring>
#include <map>
#include <memory>
#include <string>
#include <vector>

#include <fcntl.h>
#include <pthread.h>
#include <sys/wait.h>
#include <sys/stat.h>
#include <sys/types.h>
#include <unistd.h>

extern "C" {
int __real_open(const char*, int, ...);
int __real_open64(const char*, int, ...);
ssize_t __real_read(int, void*, size_t);
ssize_t __real_write(int, const void*, size_t);
int __real_close(int);
int __real_dup(int);
int __real_fsync(int);
int __real_fdatasync(int);
int __real_fstat(int, struct stat*);
int __real_fstat64(int, struct stat64*);
off_t __real_lseek(int, off_t, int);
off64_t __real_lseek64(int, off64_t, int);
int __real_ftruncate(int, off_t);
int __real_ftruncate64(int, off64_t);
int __real_posix_fadvise(int, off_t, off_t, int);
int __real_posix_fadvise64(int, off64_t, off64_t, int);
FILE* __real_fdopen(int, const char*);
int __real_fileno(FILE*);
int __real_pipe(int*);
pid_t __real_fork(void);
pid_t __real_waitpid(pid_t, int*, int);
}

namespace simfs {

// An anonymous pipe: bounded FIFO with blocking read/write. The blocking is ordinary monitor code over pthread
// mutex/condvar calls, which the linker routes to the scheduler's model like every other such call in the binary.
struct Pipe {
    std::string fifo;
    size_t capacity = 65536;
    int readers = 0, writers = 0;
    pthread_mutex_t mu = PTHREAD_MUTEX_INITIALIZER;
    pthread_cond_t cv = PTHREAD_COND_INITIALIZER;
};

struct File {
    std::shared_ptr<Pipe> pipe;   // set for the pseudo file of a pipe
    std::string path;
    std::string data;
    bool dirty = false;
    uint64_t reads = 0;
    uint64_t writes = 0;
    uint64_t closes = 0;
};

struct OpenFile {
    std::shared_ptr<File> file;
    size_t pos = 0;
    int flags = 0;
    int pipe_end = 0;             // 1 read end, 2 write end
};

// A simulated child process ("curl"): one more party, run as a simulated thread. It writes `data` to the write end of
// the pipe it inherited, in pieces, and exits; waitpid() blocks until then.
struct Child {
    int pid = 0;
    ChildSpec spec;
    int out_fd = -1;
    bool done = false, reaped = false;
    int status = 0;
    pthread_t thread{};
};

static std::map<std::string, std::shared_ptr<File>> g_files;
static std::map<int, std::shared_ptr<OpenFile>> g_fds;
static std::map<FILE*, int> g_streams;
static Soft g_soft;
static std::vector<Fault> g_faults;
static uint64_t g_syscalls = 0;
static uint64_t g_fired = 0;
static uint64_t g_first_fault_event = 0;
static bool g_child_enabled = false;
static ChildSpec g_child_spec;
static std::vector<std::shared_ptr<Child>> g_children;
static int g_last_pipe_write_fd = -1;
static int g_pipe_count = 0;
static std::string g_last_pipe_path;

void set_child(const ChildSpec& spec) {
    g_child_enabled = true;
    g_child_spec = spec;
}
std::string last_pipe_path() { return g_last_pipe_path; }
size_t children_started() { return g_children.size(); }
size_t children_unreaped() {
    size_t n = 0;
    for (const auto& c : g_children) { n += c->reaped ? 0 : 1; }
    return n;
}
size_t children_running() {
    size_t n = 0;
    for (const auto& c : g_children) { n += c->done ? 0 : 1; }
    return n;
}
int last_child_status() { return g_children.empty() ? -1 : g_children.back()->status; }

void reset() {
    g_child_enabled = false;
    g_child_spec = ChildSpec{};
    g_children.clear();
    g_last_pipe_write_fd = -1;
    g_pipe_count = 0;
    g_last_pipe_path.clear();
    g_files.clear();
    g_fds.clear();
    g_streams.clear();
    g_soft = Soft{};
    g_faults.clear();
    g_syscalls = 0;
    g_fired = 0;
    g_first_fault_event = 0;
}

void put_file(const std::string& path, const std::string& data) {
    auto f = std::make_shared<File>();
    f->path = path;
    f->data = data;
    g_files[path] = f;
}

bool get_file(const std::string& path, std::string* out) {
    auto it = g_files.find(path);
    if (it == g_files.end()) { return false; }
    if (out) { *out = it->second->data; }
    return true;
}

bool exists(const std::string& path) { return g_files.count(path) != 0; }
void remove_file(const std::string& path) { g_files.erase(path); }

size_t open_fd_count() { return g_fds.size(); }

std::string describe_open_fds() {
    std::string s;
    for (const auto& kv : g_fds) {
        s += std::to_string(kv.first) + "->" + kv.second->file->path + " ";
    }
    return s;
}

void force_close_all() {
    g_fds.clear();
    g_streams.clear();
}

uint64_t read_calls(const std::string& path) {
    auto it = g_files.find(path);
    return it == g_files.end() ? 0 : it->second->reads;
}
uint64_t write_calls(const std::string& path) {
    auto it = g_files.find(path);
    return it == g_files.end() ? 0 : it->second->writes;
}
bool is_dirty(const std::string& path) {
    auto it = g_files.find(path);
    return it != g_files.end() && it->second->dirty;
}
uint64_t total_syscalls() { return g_syscalls; }

void set_soft(const Soft& s) { g_soft = s; }
void add_fault(const Fault& f) { g_faults.push_back(f); }
const std::vector<Fault>& faults() { return g_faults; }
uint64_t faults_fired_total() { return g_fired; }
uint64_t first_fault_event() { return g_first_fault_event; }

static bool is_sim_path(const char* p) { return p && strncmp(p, "/sim/", 5) == 0; }
static bool is_sim_fd(int fd) { return fd >= FD_BASE; }

static OpenFile* lookup(int fd) {
    auto it = g_fds.find(fd);
    return it == g_fds.end() ? nullptr : it->second.get();
}

static int alloc_fd() {
    int fd = FD_BASE;
    while (g_fds.count(fd)) { ++fd; }
    return fd;
}

static void point(const char* name) {
    ++g_syscalls;
    if (sim::active()) { sim::sched_point(name); }
}

static const char* err_name(int e) {
    switch (e) {
        case EIO: return "EIO";
        case ENOSPC: return "ENOSPC";
        case EFBIG: return "EFBIG";
        case EINTR: return "EINTR";
        case EACCES: return "EACCES";
        default: return "errno";
    }
}

static void fire(Fault& f, const char* what) {
    ++f.fired;
    ++g_fired;
    if (g_first_fault_event == 0) { g_first_fault_event = sim::event_seq(); }
    std::string k = std::string(what) + " " + err_name(f.err);
    sim::fault_fired(k.c_str());
}

static Fault* find_fault(Fault::Kind kind, const std::string& path) {
    if (sim::quiet()) { return nullptr; }
    for (auto& f : g_faults) {
        if (f.kind == kind && f.path == path) { return &f; }
    }
    return nullptr;
}

static ssize_t pipe_read(int fd, void* buf, size_t n);
static ssize_t pipe_write(int fd, const void* buf, size_t n);
static void pipe_end_closed(const std::shared_ptr<struct OpenFile>& of);

static int sim_open(const char* path, int flags) {
    point("open");
    std::string p{path};
    if (Fault* f = find_fault(Fault::OPEN_ERR, p)) {
        fire(*f, "open");
        errno = f->err;
        return -1;
    }
    auto it = g_files.find(p);
    if (it == g_files.end()) {
        if (!(flags & O_CREAT)) {
            errno = ENOENT;
            return -1;
        }
        put_file(p, "");
        it = g_files.find(p);
    } else {
        if ((flags & O_CREAT) && (flags & O_EXCL)) {
            errno = EEXIST;
            return -1;
        }
        if (flags & O_TRUNC) {
            it->second->data.clear();
            it->second->dirty = true;
        }
    }
    auto of = std::make_shared<OpenFile>();
    of->file = it->second;
    of->flags = flags;
    const int fd = alloc_fd();
    g_fds[fd] = of;
    return fd;
}

static ssize_t sim_read(int fd, void* buf, size_t n) {
    point("read");
    OpenFile* of = lookup(fd);
    if (!of) {
        errno = EBADF;
        return -1;
    }
    if (of->file->pipe) { return pipe_read(fd, buf, n); }
    File& f = *of->file;
    const uint64_t call_no = f.reads++;
    if (Fault* ft = find_fault(Fault::READ_ERR_NTH, f.path)) {
        if (call_no == ft->n || (ft->sticky && ft->fired > 0 && call_no > ft->n)) {
            fire(*ft, "read");
            errno = ft->err;
            return -1;
        }
    }
    if (!sim::quiet() && g_soft.eintr_one_in && sim::chance(sim::S_IO, g_soft.eintr_one_in)) {
        sim::fault_fired("read EINTR");
        errno = EINTR;
        return -1;
    }
    size_t avail = of->pos < f.data.size() ? f.data.size() - of->pos : 0;
    size_t len = n < avail ? n : avail;
    if (len > 0 && !sim::quiet()) {
        if (g_soft.chunk_mode == 1 && g_soft.chunk > 0 && len > g_soft.chunk) {
            len = g_soft.chunk;
            sim::fault_fired("short read (fixed chunk)");
        } else if (g_soft.chunk_mode == 2 && len > 1 && f.reads < 2000) {
            // random length, biased towards very short and towards "all but a few bytes"
            const uint32_t style = sim::choose(sim::S_IO, 4);
            size_t l = len;
            if (style == 1) { l = 1 + sim::choose(sim::S_IO, static_cast<uint32_t>(len < 16 ? len : 16)); }
            else if (style == 2) { l = 1 + sim::choose(sim::S_IO, static_cast<uint32_t>(len)); }
            else if (style == 3) { const size_t back = sim::choose(sim::S_IO, static_cast<uint32_t>(len < 12 ? len : 12)); l = len - back; }
            if (l < 1) { l = 1; }
            if (l < len) {
                len = l;
                sim::fault_fired("short read (random)");
            }
        }
        if (!g_soft.cuts.empty() && (g_soft.cuts_path.empty() || g_soft.cuts_path == f.path)) {
            for (size_t c : g_soft.cuts) {
                if (c > of->pos && c < of->pos + len) {
                    len = c - of->pos;
                    sim::fault_fired("short read (cut position)");
                    break;
                }
            }
        }
    }
    if (len > 0) {
        memcpy(buf, f.data.data() + of->pos, len);
        sim::progress();
    }
    of->pos += len;
    return static_cast<ssize_t>(len);
}

static ssize_t sim_write(int fd, const void* buf, size_t n) {
    point("write");
    OpenFile* of = lookup(fd);
    if (!of) {
        errno = EBADF;
        return -1;
    }
    if (of->file->pipe) { return pipe_write(fd, buf, n); }
    File& f = *of->file;
    ++f.writes;
    if (of->flags & O_APPEND) { of->pos = f.data.size(); }
    size_t len = n;
    if (Fault* ft = find_fault(Fault::WRITE_ERR_AT, f.path)) {
        const uint64_t end = of->pos + n;
        if ((ft->fired == 0 && end > ft->n) || (ft->sticky && ft->fired > 0)) {
            if (ft->partial && ft->fired == 0 && ft->n > of->pos) {
                len = static_cast<size_t>(ft->n - of->pos); // short write up to the limit, the next call fails
                sim::fault_fired("short write (up to fault offset)");
            } else {
                fire(*ft, "write");
                errno = ft->err;
                return -1;
            }
        }
    }
    if (!sim::quiet() && len == n) {
        if (g_soft.eintr_one_in && sim::chance(sim::S_IO, g_soft.eintr_one_in)) {
            sim::fault_fired("write EINTR");
            errno = EINTR;
            return -1;
        }
        if (g_soft.short_write_one_in && n > 1 && sim::chance(sim::S_IO, g_soft.short_write_one_in)) {
            len = 1 + sim::choose(sim::S_IO, static_cast<uint32_t>(n - 1));
            sim::fault_fired("short write");
        }
    }
    if (of->pos > f.data.size()) { f.data.resize(of->pos, '\0'); }
    if (of->pos + len > f.data.size()) { f.data.resize(of->pos + len); }
    memcpy(&f.data[of->pos], buf, len);
    of->pos += len;
    f.dirty = true;
    if (len > 0) { sim::progress(); }
    return static_cast<ssize_t>(len);
}

static int sim_close(int fd) {
    point("close");
    auto it = g_fds.find(fd);
    if (it == g_fds.end()) {
        sim::probe("close of an fd that is not open (double close)");
        errno = EBADF;
        return -1;
    }
    File& f = *it->second->file;
    const uint64_t call_no = f.closes++;
    int rc = 0;
    if (Fault* ft = find_fault(Fault::CLOSE_ERR_NTH, f.path)) {
        if (call_no == ft->n) {
            fire(*ft, "close");
            errno = ft->err;
            rc = -1;
        }
    }
    std::shared_ptr<OpenFile> of = it->second;
    if (of->file->pipe) { sim::debug("close of pipe fd " + std::to_string(fd) + " end " + std::to_string(of->pipe_end) + " by thread " + std::to_string(sim::current_thread())); }
    g_fds.erase(it); // like Linux: the descriptor is gone even if close() reports an error
    if (of->file->pipe && of.use_count() == 1) { pipe_end_closed(of); }
    return rc;
}

static int sim_dup(int fd) {
    point("dup");
    auto it = g_fds.find(fd);
    if (it == g_fds.end()) {
        errno = EBADF;
        return -1;
    }
    const int nfd = alloc_fd();
    g_fds[nfd] = it->second; // shares offset
    return nfd;
}

static int sim_fsync(int fd) {
    point("fsync");
    OpenFile* of = lookup(fd);
    if (!of) {
        errno = EBADF;
        return -1;
    }
    if (Fault* ft = find_fault(Fault::FSYNC_ERR, of->file->path)) {
        fire(*ft, "fsync");
        errno = ft->err;
        return -1;
    }
    of->file->dirty = false;
    return 0;
}

static off64_t sim_lseek(int fd, off64_t off, int whence) {
    OpenFile* of = lookup(fd);
    if (!of) {
        errno = EBADF;
        return -1;
    }
    if (of->file->pipe) {
        errno = ESPIPE;
        return -1;
    }
    int64_t base = 0;
    if (whence == SEEK_CUR) { base = static_cast<int64_t>(of->pos); }
    else if (whence == SEEK_END) { base = static_cast<int64_t>(of->file->data.size()); }
    else if (whence != SEEK_SET) {
        errno = EINVAL;
        return -1;
    }
    const int64_t np = base + off;
    if (np < 0) {
        errno = EINVAL;
        return -1;
    }
    of->pos = static_cast<size_t>(np);
    return np;
}

static int sim_ftruncate(int fd, off64_t len) {
    point("ftruncate");
    OpenFile* of = lookup(fd);
    if (!of) {
        errno = EBADF;
        return -1;
    }
    if (Fault* ft = find_fault(Fault::FTRUNCATE_ERR, of->file->path)) {
        fire(*ft, "ftruncate");
        errno = ft->err;
        return -1;
    }
    of->file->data.resize(static_cast<size_t>(len), '\0');
    of->file->dirty = true;
    return 0;
}

// ---- pipes

static ssize_t pipe_read(int fd, void* buf, size_t n) {
    std::shared_ptr<OpenFile> of = g_fds[fd];   // keeps the description alive while this thread is blocked
    File& f = *of->file;
    Pipe& p = *f.pipe;
    if (of->pipe_end != 1) {
        errno = EBADF;
        return -1;
    }
    ++f.reads;
    if (!sim::quiet() && g_soft.eintr_one_in && sim::chance(sim::S_IO, g_soft.eintr_one_in)) {
        sim::fault_fired("read EINTR");
        errno = EINTR;
        return -1;
    }
    pthread_mutex_lock(&p.mu);
    bool waited = false;
    while (p.fifo.empty() && p.writers > 0) {
        waited = true;
        pthread_cond_wait(&p.cv, &p.mu);
    }
    if (waited) { sim::probe("reader blocked on an empty pipe"); }
    const size_t len = n < p.fifo.size() ? n : p.fifo.size();
    if (len > 0) {
        memcpy(buf, p.fifo.data(), len);
        p.fifo.erase(0, len);
        if (len < n) { sim::fault_fired("short read (pipe)"); }
        sim::progress();
        pthread_cond_broadcast(&p.cv);
    }
    pthread_mutex_unlock(&p.mu);
    return static_cast<ssize_t>(len);
}

static ssize_t pipe_write(int fd, const void* buf, size_t n) {
    std::shared_ptr<OpenFile> of = g_fds[fd];
    File& f = *of->file;
    Pipe& p = *f.pipe;
    if (of->pipe_end != 2) {
        errno = EBADF;
        return -1;
    }
    ++f.writes;
    pthread_mutex_lock(&p.mu);
    bool waited = false;
    while (p.readers > 0 && p.fifo.size() >= p.capacity) {
        waited = true;
        pthread_cond_wait(&p.cv, &p.mu);
    }
    if (waited) { sim::probe("writer blocked on a full pipe"); }
    if (p.readers == 0) {
        pthread_mutex_unlock(&p.mu);
        sim::probe("write to a pipe without readers (EPIPE)");
        errno = EPIPE;   // SIGPIPE is ignored by the simulated child, as curl does
        return -1;
    }
    const size_t space = p.capacity - p.fifo.size();
    const size_t len = n < space ? n : space;
    p.fifo.append(static_cast<const char*>(buf), len);
    if (len > 0) { sim::progress(); }
    pthread_cond_broadcast(&p.cv);
    pthread_mutex_unlock(&p.mu);
    return static_cast<ssize_t>(len);
}

static void pipe_end_closed(const std::shared_ptr<OpenFile>& of) {
    // called when the last descriptor of an open file description of a pipe end is gone
    Pipe& p = *of->file->pipe;
    pthread_mutex_lock(&p.mu);
    if (of->pipe_end == 1) { --p.readers; } else { --p.writers; }
    pthread_cond_broadcast(&p.cv);
    pthread_mutex_unlock(&p.mu);
}

static int sim_pipe(int fds[2]) {
    point("pipe");
    auto f = std::make_shared<File>();
    f->pipe = std::make_shared<Pipe>();
    f->pipe->capacity = g_child_spec.pipe_capacity ? g_child_spec.pipe_capacity : 65536;
    f->pipe->readers = 1;
    f->pipe->writers = 1;
    f->path = "pipe:" + std::to_string(g_pipe_count++);
    g_files[f->path] = f;
    g_last_pipe_path = f->path;
    auto r = std::make_shared<OpenFile>();
    r->file = f;
    r->pipe_end = 1;
    auto w = std::make_shared<OpenFile>();
    w->file = f;
    w->pipe_end = 2;
    fds[0] = alloc_fd();
    g_fds[fds[0]] = r;
    fds[1] = alloc_fd();
    g_fds[fds[1]] = w;
    g_last_pipe_write_fd = fds[1];
    return 0;
}

// ---- child process

static void* child_main(void* arg) {
    Child* c = static_cast<Child*>(arg);
    sim::name_thread("child");
    const ChildSpec& sp = c->spec;
    const size_t limit = sp.write_limit < sp.data.size() ? sp.write_limit : sp.data.size();
    size_t pos = 0;
    int code = 0;
    while (pos < limit) {
        size_t want = limit - pos;
        if (sp.chunk_mode == 1 && sp.chunk && want > sp.chunk) { want = sp.chunk; }
        else if (sp.chunk_mode == 2 && want > 1) {
            const uint32_t style = sim::choose(sim::S_IO, 3);
            if (style == 0 && sp.tiny_writes) { want = 1 + sim::choose(sim::S_IO, static_cast<uint32_t>(want < 16 ? want : 16)); }
            else if (style == 1) { want = 1 + sim::choose(sim::S_IO, static_cast<uint32_t>(want < 4096 ? want : 4096)); }
        }
        const ssize_t r = sim_write(c->out_fd, sp.data.data() + pos, want);
        if (r < 0) {
            if (errno == EINTR) { continue; }
            code = 23;   // curl: "Failed writing received data to disk/application"
            break;
        }
        pos += static_cast<size_t>(r);
    }
    if (code == 0) { code = sp.exit_code; }
    sim_close(c->out_fd);
    c->status = (code & 0xff) << 8;
    if (code == sp.exit_code && sp.kill_signal) { c->status = sp.kill_signal & 0x7f; }   // WIFSIGNALED
    c->done = true;
    return nullptr;
}

static pid_t sim_fork() {
    point("fork");
    if (g_child_spec.fork_fails && !sim::quiet()) {
        sim::fault_fired("fork EAGAIN");
        errno = EAGAIN;
        return -1;
    }
    auto c = std::make_shared<Child>();
    c->pid = 50000 + static_cast<int>(g_children.size());
    c->spec = g_child_spec;
    // the child inherits the write end of the pipe (its own descriptor on the same open file description); the
    // read end, which the real child closes before exec, is not modelled
    auto it = g_fds.find(g_last_pipe_write_fd);
    if (it == g_fds.end()) {
        errno = ENOSYS;
        return -1;
    }
    c->out_fd = alloc_fd();
    g_fds[c->out_fd] = it->second;
    g_children.push_back(c);
    if (pthread_create(&c->thread, nullptr, child_main, c.get()) != 0) {
        g_fds.erase(c->out_fd);
        g_children.pop_back();
        errno = EAGAIN;
        return -1;
    }
    return c->pid;
}

static pid_t sim_waitpid(Child& c, int* status) {
    point("waitpid");
    if (c.reaped) {
        errno = ECHILD;
        return -1;
    }
    // the child is a simulated thread: waiting for the process is joining it (a child that is never waited for stays
    // unjoined, like a zombie; the scheduler's end-of-run check still sees whether it has ended)
    pthread_join(c.thread, nullptr);
    c.reaped = true;
    if (status) { *status = c.status; }
    return c.pid;
}

// ---- stdio over a simulated fd (libbz2 is the only user)

struct Cookie { int fd; };

static ssize_t cookie_read(void* c, char* buf, size_t n) {
    return sim_read(static_cast<Cookie*>(c)->fd, buf, n);
}

static ssize_t cookie_write(void* c, const char* buf, size_t n) {
    // glibc's fd streams loop over short writes and stop at the first error; mirror that here because
    // for cookie streams glibc treats any short count as an error
    size_t done = 0;
    while (done < n) {
        const ssize_t r = sim_write(static_cast<Cookie*>(c)->fd, buf + done, n - done);
        if (r < 0) { break; }
        done += static_cast<size_t>(r);
    }
    return static_cast<ssize_t>(done);
}

static int cookie_seek(void* c, off64_t* off, int whence) {
    const off64_t r = sim_lseek(static_cast<Cookie*>(c)->fd, *off, whence);
    if (r < 0) { return -1; }
    *off = r;
    return 0;
}

static int cookie_close(void* c) {
    auto* ck = static_cast<Cookie*>(c);
    for (auto it = g_streams.begin(); it != g_streams.end(); ++it) {
        if (it->second == ck->fd) {
            g_streams.erase(it);
            break;
        }
    }
    const int rc = sim_close(ck->fd);
    delete ck;
    return rc;
}

} // namespace simfs

using namespace simfs;

extern "C" {

int __wrap_open(const char* path, int flags, ...) {
    mode_t mode = 0;
    if (flags & (O_CREAT | O_TMPFILE)) {
        va_list ap;
        va_start(ap, flags);
        mode = va_arg(ap, mode_t);
        va_end(ap);
    }
    if (is_sim_path(path)) { return sim_open(path, flags); }
    return __real_open(path, flags, mode);
}

int __wrap_open64(const char* path, int flags, ...) {
    mode_t mode = 0;
    if (flags & (O_CREAT | O_TMPFILE)) {
        va_list ap;
        va_start(ap, flags);
        mode = va_arg(ap, mode_t);
        va_end(ap);
    }
    if (is_sim_path(path)) { return sim_open(path, flags); }
    return __real_open64(path, flags, mode);
}

ssize_t __wrap_read(int fd, void* buf, size_t n) {
    if (is_sim_fd(fd)) { return sim_read(fd, buf, n); }
    return __real_read(fd, buf, n);
}

ssize_t __wrap_write(int fd, const void* buf, size_t n) {
    if (is_sim_fd(fd)) { return sim_write(fd, buf, n); }
    return __real_write(fd, buf, n);
}

int __wrap_close(int fd) {
    if (is_sim_fd(fd)) { return sim_close(fd); }
    return __real_close(fd);
}

int __wrap_dup(int fd) {
    if (is_sim_fd(fd)) { return sim_dup(fd); }
    return __real_dup(fd);
}

int __wrap_fsync(int fd) {
    if (is_sim_fd(fd)) { return sim_fsync(fd); }
    return __real_fsync(fd);
}

int __wrap_fdatasync(int fd) {
    if (is_sim_fd(fd)) { return sim_fsync(fd); }
    return __real_fdatasync(fd);
}

int __wrap_fstat(int fd, struct stat* st) {
    if (is_sim_fd(fd)) {
        OpenFile* of = lookup(fd);
        if (!of) {
            errno = EBADF;
            return -1;
        }
        memset(st, 0, sizeof(*st));
        st->st_mode = (of->file->pipe ? S_IFIFO : S_IFREG) | 0644;
        st->st_size = static_cast<off_t>(of->file->data.size());
        st->st_blksize = 4096;
        st->st_nlink = 1;
        return 0;
    }
    return __real_fstat(fd, st);
}

int __wrap_fstat64(int fd, struct stat64* st) {
    if (is_sim_fd(fd)) {
        OpenFile* of = lookup(fd);
        if (!of) {
            errno = EBADF;
            return -1;
        }
        memset(st, 0, sizeof(*st));
        st->st_mode = (of->file->pipe ? S_IFIFO : S_IFREG) | 0644;
        st->st_size = static_cast<off64_t>(of->file->data.size());
        st->st_blksize = 4096;
        st->st_nlink = 1;
        return 0;
    }
    return __real_fstat64(fd, st);
}

off_t __wrap_lseek(int fd, off_t off, int whence) {
    if (is_sim_fd(fd)) { return static_cast<off_t>(sim_lseek(fd, off, whence)); }
    return __real_lseek(fd, off, whence);
}

off64_t __wrap_lseek64(int fd, off64_t off, int whence) {
    if (is_sim_fd(fd)) { return sim_lseek(fd, off, whence); }
    return __real_lseek64(fd, off, whence);
}

int __wrap_ftruncate(int fd, off_t len) {
    if (is_sim_fd(fd)) { return sim_ftruncate(fd, len); }
    return __real_ftruncate(fd, len);
}

int __wrap_ftruncate64(int fd, off64_t len) {
    if (is_sim_fd(fd)) { return sim_ftruncate(fd, len); }
    return __real_ftruncate64(fd, len);
}

int __wrap_posix_fadvise(int fd, off_t a, off_t b, int c) {
    if (is_sim_fd(fd)) { return 0; }
    return __real_posix_fadvise(fd, a, b, c);
}

int __wrap_posix_fadvise64(int fd, off64_t a, off64_t b, int c) {
    if (is_sim_fd(fd)) { return 0; }
    return __real_posix_fadvise64(fd, a, b, c);
}

FILE* __wrap_fdopen(int fd, const char* mode) {
    if (is_sim_fd(fd)) {
        if (!lookup(fd)) {
            errno = EBADF;
            return nullptr;
        }
        auto* ck = new Cookie{fd};
        cookie_io_functions_t io = {cookie_read, cookie_write, cookie_seek, cookie_close};
        FILE* f = fopencookie(ck, mode, io);
        if (!f) {
            delete ck;
            return nullptr;
        }
        // glibc sizes the buffer of an fd stream from st_blksize (4096 on the usual file systems); a cookie stream
        // would get BUFSIZ (8192). Use the production value mostly, the other one sometimes.
        setvbuf(f, nullptr, _IOFBF, (sim::active() && !sim::quiet() && sim::choose(sim::S_IO, 4) == 3) ? 8192 : 4096);
        g_streams[f] = fd;
        return f;
    }
    return __real_fdopen(fd, mode);
}

// expat salts its hash tables with arc4random_buf(); keep runs reproducible
void __real_arc4random_buf(void*, size_t);
void __wrap_arc4random_buf(void* buf, size_t n) {
    if (sim::active()) {
        memset(buf, 0x5a, n);
        return;
    }
    __real_arc4random_buf(buf, n);
}

int __wrap_pipe(int fds[2]) {
    if (sim::active() && g_child_enabled) { return sim_pipe(fds); }
    return __real_pipe(fds);
}

pid_t __wrap_fork(void) {
    if (sim::active() && g_child_enabled) { return sim_fork(); }
    return __real_fork();
}

pid_t __wrap_waitpid(pid_t pid, int* status, int options) {
    for (auto& c : g_children) {
        if (c->pid == pid) { return sim_waitpid(*c, status); }
    }
    return __real_waitpid(pid, status, options);
}

int __wrap_fileno(FILE* f) {
    auto it = g_streams.find(f);
    if (it != g_streams.end()) { return it->second; }
    return __real_fileno(f);
}

} // extern "C"
