// Hand reproduction (outside the simulator) of findings #17-#19 (DESIGN.md 12.3), used before the fixes 5d3fdb6, 6b79641, 36095fa:
//   ./repro fork                      -> fork() failing in Reader's URL path leaked both pipe descriptors (exit 1 = leak)
//   ./repro hang file:///path/corrupt.opl.gz   (real curl needed; a gzip file of a few MB with damaged bytes near offset 5000)
//                                     -> Reader::close(), called from read()'s error path, never returned (SIGALRM after 20 s);
//                                        after 6b79641 the caller got "subprocess returned error: Illegal seek" (#19), after
//                                        36095fa the gzip error itself
// build: g++ -std=c++17 -O1 -g -I/repo/include repro.cpp -o repro -lz -lbz2 -lexpat -lpthread
#include <osmium/io/any_input.hpp>
#include <osmium/io/reader.hpp>
#include <dirent.h>
#include <cstdio>
#include <cstring>
#include <iostream>
#include <sys/syscall.h>
#include <unistd.h>
static bool g_fork_fails = false;
extern "C" pid_t fork(void) {
    if (g_fork_fails) { errno = EAGAIN; return -1; }
    return static_cast<pid_t>(syscall(SYS_fork));
}
static int count_fds() { int n = 0; DIR* d = opendir("/proc/self/fd"); while (readdir(d)) ++n; closedir(d); return n; }
int main(int argc, char** argv) {
    if (argc > 1 && !strcmp(argv[1], "fork")) {
        const int before = count_fds();
        g_fork_fails = true;
        for (int i = 0; i < 10; ++i) {
            try { osmium::io::Reader r{"http://localhost:1/x.osm"}; } catch (const std::exception& e) { if (i == 0) std::cout << "exception: " << e.what() << "\n"; }
        }
        std::cout << "open descriptors before: " << before << " after 10 failed Readers: " << count_fds() << "\n";
        return count_fds() == before ? 0 : 1;
    }
    alarm(20);
    try {
        osmium::io::Reader r{argv[2]};
        while (r.read()) {}
        r.close();
        std::cout << "no exception\n";
    } catch (const std::exception& e) {
        std::cout << "exception reached the caller: " << e.what() << "\n";
    }
    return 0;
}
