// Hand reproduction of finding #20 (DESIGN.md 12.3), before fix a129712: a user name of 70000 bytes in XML (node), OPL (node)
// and XML (changeset). With assertions: abort in set_user(); with -DNDEBUG: accepted, name cut to 70000 mod 65536 = 4464 bytes.
// After the fix: std::length_error "OSM user name is too long" in both builds.
// build: g++ -std=c++17 -O1 [-DNDEBUG] -I/repo/include repro.cpp -o repro -lz -lbz2 -lexpat -lpthread ; run: ./repro osm|opl|cs
#include <osmium/io/any_input.hpp>
#include <osmium/io/reader.hpp>
#include <cstring>
#include <iostream>
int main(int argc, char** argv) {
    const std::string longname(70000, 'u');
    std::string data;
    const std::string fmt = argc > 1 ? argv[1] : "osm";
    if (fmt == "osm") data = "<osm version=\"0.6\"><node id=\"1\" version=\"1\" user=\"" + longname + "\" uid=\"1\" lat=\"1\" lon=\"2\"/></osm>";
    else if (fmt == "opl") data = "n1 v1 dV c1 t i1 u" + longname + " T x1 y2\n";
    else data = "<osm version=\"0.6\"><changeset id=\"1\" user=\"" + longname + "\" uid=\"1\"/></osm>";
    try {
        osmium::io::File f{data.data(), data.size(), fmt == "opl" ? "opl" : "osm"};
        osmium::io::Reader r{f, osmium::osm_entity_bits::all};
        size_t n = 0;
        while (auto b = r.read()) {
            for (const auto& o : b.select<osmium::OSMObject>()) { n += std::strlen(o.user()); }
            for (const auto& c : b.select<osmium::Changeset>()) { n += std::strlen(c.user()); }
        }
        r.close();
        std::cout << fmt << ": accepted, user length read back " << n << "\n";
    } catch (const std::exception& e) { std::cout << fmt << ": exception " << e.what() << "\n"; }
}
