#include <osmium/io/xml_input.hpp>
#include <osmium/osm/changeset.hpp>
#include <iostream>
#include <string>
int main(int argc,char**argv){
  osmium::io::Reader r{argv[1], osmium::osm_entity_bits::changeset};
  long n=0,bad=0;
  while(auto b=r.read()){
    for(const auto& cs: b.select<osmium::Changeset>()){
      int c=0;
      for(const auto& cm: cs.discussion()){
        std::string want_user="commenter-"+std::to_string(cs.id())+"-"+std::to_string(c)+"-"+std::string(200,(char)117);
        std::string want_text_prefix="text-"+std::to_string(cs.id())+"-"+std::to_string(c)+"-";
        if(want_user!=cm.user() || std::string(cm.text()).compare(0,want_text_prefix.size(),want_text_prefix)!=0){ if(bad<5) std::cout<<"BAD cs "<<cs.id()<<" comment "<<c<<" user '"<<cm.user()<<"' text '"<<std::string(cm.text()).substr(0,30)<<"'\n"; ++bad;}
        ++c;
      }
      if(c!=3){ if(bad<5) std::cout<<"BAD cs "<<cs.id()<<" has "<<c<<" comments\n"; ++bad;}
      ++n;
    }
  }
  std::cout<<n<<" changesets, "<<bad<<" bad\n";
  return bad?1:0;
}
