import sys
n=int(sys.argv[1]); shift=int(sys.argv[2])
print('<?xml version="1.0" encoding="UTF-8"?>\n<osm version="0.6" generator="x">')
for i in range(1,n+1):
    print(f' <changeset id="{i}" created_at="2020-01-01T00:00:00Z" closed_at="2020-01-01T01:00:00Z" open="false" user="u{i}" uid="{i}" num_changes="1" comments_count="3">')
    if i==1: print('  <tag k="pad" v="'+('p'*shift)+'"/>')
    print('  <discussion>')
    for c in range(3):
        print(f'   <comment uid="{i*10+c}" user="commenter-{i}-{c}-'+('u'*200)+f'" date="2020-01-02T00:00:0{c}Z"><text>text-{i}-{c}-'+('x'*(37+i%11))+'</text></comment>')
    print('  </discussion>')
    print(' </changeset>')
print('</osm>')
