# Configuration of harness binaries and per-property run plans for bin/check.

LIBS_IO = ["-lz", "-lbz2", "-lexpat", "-llz4"]

SIM_IO = ["sim.cpp", "simfs.cpp", "clamp.cpp", "lz4wrap.cpp", "sanitizer_opts.cpp"]
WRAPS_IO = ["wraps_sched.txt", "wraps_fs.txt", "wraps_clamp.txt", "wraps_lz4.txt"]

HARNESSES = {
    "reader": {
        "source": "reader.cpp",
        "defines": ["-DOSMIUM_WITH_LZ4"],
        "sim_sources": SIM_IO,
        "wraps": WRAPS_IO,
        "libs": LIBS_IO,
        "variants": ["san", "san-ndebug"],
    },
    "writer": {
        "source": "writer.cpp",
        "defines": ["-DOSMIUM_WITH_LZ4"],
        "sim_sources": SIM_IO,
        "wraps": WRAPS_IO,
        "libs": LIBS_IO,
        "variants": ["san"],
    },
    "c12": {
        "source": "c12.cpp",
        "sim_sources": ["sim.cpp", "simfs.cpp", "simmap.cpp", "sanitizer_opts.cpp"],
        "wraps": ["wraps_sched.txt", "wraps_fs.txt", "wraps_map.txt"],
        "libs": [],
        "variants": ["san"],
    },
    "c09": {
        "source": "c09.cpp",
        "sim_sources": ["sim.cpp", "simfs.cpp", "clamp.cpp", "sanitizer_opts.cpp"],
        "wraps": ["wraps_sched.txt", "wraps_fs.txt", "wraps_clamp.txt"],
        "libs": ["-lz", "-lbz2"],
        "variants": ["san"],
    },
    "c19": {
        "source": "c19.cpp",
        "sim_sources": ["sim.cpp", "sanitizer_opts.cpp"],
        "wraps": ["wraps_sched.txt"],
        "libs": [],
        "variants": ["san"],
    },
}

COMMON_ASSUMPTIONS = [
    "threads are pre-empted only at intercepted synchronisation calls (pthread mutex/condvar/create/join/once, futex, simulated file syscalls, explicit hooks); code between two such points runs atomically",
    "sequential consistency: one simulated thread runs at a time, weak-memory effects are not modelled",
    "the simulator's model of each primitive is the POSIX contract (any waiter may be woken, spurious wake-ups, late time-outs)",
    "seeded sampling of schedules/faults/workloads, not exhaustive unless a sub-space is flagged exhaustive",
    "bounded liveness: deadlock = no thread enabled and no pending deadline; livelock = no progress event (byte moved through a simulated fd, element through a queue under test, object delivered, thread started/finished) for 600000 scheduling steps, hard cap 6*10^7 steps per run",
]

PROPERTIES = {
    "C19": {
        "level": "exploration",
        "budget_s": {"quick": 75, "thorough": 1500},
        "rule": "one evaluation = one simulated run of real osmium::thread::Queue / Pool code with harness producer/consumer/submitter threads under a seeded schedule (strategies: random walk, sticky, PCT-style priorities, starvation; spurious wake-ups; three clock speeds). "
                "A run is non-trivial if at least one scheduling step had >= 2 enabled threads; distinct = distinct schedule signature (hash of the sequence of (thread, sync-op kind, object) triples, addresses replaced by first-seen ids) per mode.",
        "modes": [
            {"mode": "queue", "harness": "c19", "runs": {"quick": 9000, "thorough": 400000}},
            {"mode": "lin", "harness": "c19", "runs": {"quick": 9000, "thorough": 400000}},
            {"mode": "pool", "harness": "c19", "runs": {"quick": 7000, "thorough": 300000}},
        ],
        "expected_probes": ["queue observed full", "condvar timeout fired", "spurious wake-up (condvar)", "shutdown while queue in use",
                            "linearizability histories checked", "two or more tasks running simultaneously", "pool destroyed with futures outstanding", "worker thread could not be started"],
        "components_real": ["osmium::thread::Queue", "osmium::thread::Pool", "osmium::thread::function_wrapper", "libstdc++ std::thread/mutex/condition_variable/future/packaged_task (statically linked)"],
        "components_stubbed": ["kernel scheduler and futex (baton scheduler)", "pthread mutex/condvar/once (model)", "clock (discrete-event)"],
        "assumptions": COMMON_ASSUMPTIONS,
    },
}

READER_REAL = ["osmium::io::Reader with its read thread, parser thread and pool workers", "all four parsers (XML via expat, OPL, PBF via protozero, o5m)", "Queue/Pool/queue_wrapper/ReadThreadManager",
               "NoDecompressor/GzipDecompressor/Bzip2Decompressor and the buffer decompressors", "zlib, libbz2, expat, lz4 (statically linked, unmodified)", "glibc stdio over a cookie stream (bzip2)",
               "libstdc++ thread/future/condition_variable (statically linked)"]
READER_STUB = ["kernel scheduler and futex (baton scheduler)", "pthread mutex/condvar/once (model)", "clock (discrete-event)", "open/read/write/close/dup/fsync/fstat/lseek on /sim/ paths (in-memory file system with fault plan)"]

PROPERTIES["C06"] = {
    "level": "exploration",
    "budget_s": {"quick": 80, "thorough": 1500},
    "rule": "one evaluation = one input (generated XML/OPL/PBF/o5m file, optionally gz/bz2, or a repository fixture, or a truncation of one) read twice through the real Reader: a reference run (one piece, non-preemptive) and a run whose fd reads / decompressor calls return tape-chosen piece sizes (fixed 1..65536, random, explicit cut positions, EINTR) under a seeded schedule; the two outcomes (header+objects or exception type+message) must be equal. "
            "Non-trivial = at least one short read / clamp fired or >= 2 threads were enabled at once; distinct = distinct event-log signature (threads x sync ops x file ops).",
    "modes": [
        {"mode": "c06", "harness": "reader", "runs": {"quick": 40000, "thorough": 1500000}, "share": 0.6},
        {"mode": "c06enum", "harness": "reader", "runs": {"quick": 400, "thorough": 20000}, "stall_s": 300, "share": 0.4},
    ],
    "expected_probes": ["reference outcome is an exception", "reference outcome is data", "enumerated cut points"],
    "components_real": READER_REAL,
    "components_stubbed": READER_STUB,
    "assumptions": COMMON_ASSUMPTIONS + ["piece sizes below 64 KiB are obtained through hook H4 (input_buffer_size) or by clamping gzread/BZ2_bzRead/inflate/BZ2_bzDecompress output lengths; one run in 16 keeps the shipped 1 MiB size"],
}

PROPERTIES["C05"] = {
    "level": "exploration",
    "budget_s": {"quick": 80, "thorough": 1500},
    "rule": "one evaluation = one multi-buffer input read by the real Reader under a seeded schedule with tape-chosen pool size (1..32), queue bounds, PBF pool use, buffers_type, entity mask (16 subsets), read_meta, read()/InputIterator and parser buffer sizes (hook H2), compared object by object with a non-preemptive single-threaded reference decode of the same bytes. "
            "Non-trivial = >= 2 threads enabled at once; distinct = distinct schedule signature.",
    "modes": [
        {"mode": "c05", "harness": "reader", "runs": {"quick": 25000, "thorough": 800000}, "share": 0.6},
        {"mode": "c05convert", "harness": "reader", "runs": {"quick": 10000, "thorough": 400000}, "share": 0.2},
        {"mode": "c05multi", "harness": "reader", "runs": {"quick": 10000, "thorough": 400000}, "share": 0.2},
    ],
    "expected_probes": ["three or more buffers delivered", "PBF decoded with >= 2 pool threads", "condvar timeout fired", "Reader and Writer shared one pool", "several Readers shared one pool"],
    "components_real": READER_REAL,
    "components_stubbed": READER_STUB,
    "assumptions": COMMON_ASSUMPTIONS,
}

PROPERTIES["C07"] = {
    "level": "fault_enumeration",
    "budget_s": {"quick": 80, "thorough": 1500},
    "rule": "one evaluation = one Reader life cycle script (optional header(), k reads, then read-to-EOF / close() / destructor / close()+read() / close()+header()) on one input (file, memory buffer, or - mode c07url - a URL served by a simulated child process through a bounded pipe) with at most one hard fault (EIO on the j-th read(2), close(2) failing, truncation at L, one corruption op; for URLs: transfer ends with a non-zero exit status after all or part of the data, fork() fails) plus soft perturbation (short reads, clamped decompressor output, small queues and buffers), under a seeded schedule. Oracles: every call returns, no thread or fd left, storage-fault outcome equals the reference outcome, a fired I/O error is reported by some call, no data after an error, no read(2) after close(). "
            "Non-trivial = a fault fired or >= 2 threads enabled at once; distinct = distinct event-log signature.",
    "modes": [
        {"mode": "c07", "harness": "reader", "runs": {"quick": 40000, "thorough": 1500000}, "share": 0.45},
        {"mode": "c07url", "harness": "reader", "runs": {"quick": 15000, "thorough": 600000}, "share": 0.2},
        {"mode": "c07enum", "harness": "reader", "runs": {"quick": 600, "thorough": 20000}, "stall_s": 300, "share": 0.35},
    ],
    "expected_probes": ["hard fault fired", "exception reached the caller", "consumer abandoned the Reader early", "enumerated truncation lengths", "enumerated EIO read indices", "URL input: child process started", "URL input: failing transfer", "URL input: fork failed", "a thread of the Reader could not be started", "writer blocked on a full pipe", "write to a pipe without readers (EPIPE)"],
    "components_real": READER_REAL + ["Reader::execute()/open_input_file_or_url()/close() child-process handling for URL input (mode c07url)"],
    "components_stubbed": READER_STUB + ["pipe()/fork()/waitpid(): bounded in-memory pipe with blocking ends; the curl child is a simulated thread that writes the input in pieces, gets EPIPE when the read end is gone, may exit non-zero or stop early; fork() may fail (mode c07url)"],
    "assumptions": COMMON_ASSUMPTIONS + ["mode c07url: the child behaves like curl with SIGPIPE ignored (exit status 23 on EPIPE); the read end the real child closes before exec is not modelled; damaged .gz inputs are not compared differentially in this mode", "mode c07: fault positions (j, L, corruption offsets) and stop points k are sampled by the seed; mode c07enum: every truncation length and every failing read index is enumerated for small inputs (<= 900 bytes) with the script header + read to EOF + close"],
}

PROPERTIES["C03"] = {
    "level": "exploration",
    "budget_s": {"quick": 80, "thorough": 1500},
    "rule": "one evaluation = one valid input (generated or fixture, all four formats, gz/bz2) damaged by 1-3 storage faults (bit flip, overwritten byte, zeroed/duplicated/removed/swapped range, spliced garbage, extreme 4-byte value, truncation; plus EIO) and read through the full threaded pipeline under a seeded schedule and random piece sizes, with every delivered object traversed completely, in an assertions-on and an NDEBUG build, both under ASan+UBSan. "
            "Non-trivial = every run (each has >= 1 storage fault); distinct = distinct event-log signature.",
    "modes": [
        {"mode": "c03", "harness": "reader", "runs": {"quick": 30000, "thorough": 1000000}},
        {"mode": "c03", "harness": "reader", "variant": "san-ndebug", "runs": {"quick": 30000, "thorough": 1000000}},
    ],
    "expected_probes": ["damaged input rejected with an exception", "damaged input accepted"],
    "components_real": READER_REAL,
    "components_stubbed": READER_STUB,
    "assumptions": COMMON_ASSUMPTIONS + ["restricted claim: the neighbourhood of valid files that storage faults produce is sampled; no coverage-guided search over all byte strings (that is fuzzing, a different technique family)",
                                        "verdict policy: any AddressSanitizer report and any UndefinedBehaviorSanitizer report counts as a violation (undefined behaviour on hostile input is treated like a memory error), except signed-integer-overflow (not instrumented: the delta coding wraps deliberately) and ASan's allocation-size/out-of-memory reports (std::bad_alloc without ASan: printed as NOTE)"],
}

PROPERTIES["C09"] = {
    "level": "fault_enumeration",
    "budget_s": {"quick": 80, "thorough": 1500},
    "rule": "one evaluation = one compressed file built from 1-5 payload pieces (sizes around 0, 1, 4096, 5000, 10240, 65536 and random; empty pieces allowed), each piece compressed by zlib/libbz2 called directly by the harness and concatenated, read through the real gzip/bzip2 Decompressor classes from a simulated fd (short reads, hook-varied output buffer size incl. the shipped 1 MiB) or from memory (clamped output window), without fault, truncated at a length biased to stream boundaries, or with one corrupted byte; mode 'own' reads back what the library's own Compressor wrote; mode 'enum' enumerates for one small file every truncation length and three corruptions of every byte. "
            "Non-trivial = multi-stream, faulted, or non-default piece size; distinct = distinct event-log signature (file ops).",
    "modes": [
        {"mode": "clean", "harness": "c09", "runs": {"quick": 60000, "thorough": 1500000}, "share": 0.3},
        {"mode": "fault", "harness": "c09", "runs": {"quick": 60000, "thorough": 1500000}, "share": 0.3},
        {"mode": "own", "harness": "c09", "runs": {"quick": 15000, "thorough": 300000}, "share": 0.1},
        {"mode": "enum", "harness": "c09", "runs": {"quick": 2500, "thorough": 60000}, "share": 0.3},
    ],
    "expected_probes": ["payload of 1 MiB or more read with the shipped 1 MiB buffer", "stream ends exactly on a 4096/5000/8192-byte boundary", "multi-stream file", "truncated file", "corrupted file", "truncation detected", "corruption detected", "enumerated fault points", "enumerated every truncation of a file decompressing to more than one 10240-byte output piece"],
    "components_real": ["GzipDecompressor, GzipBufferDecompressor, Bzip2Decompressor, Bzip2BufferDecompressor, GzipCompressor, Bzip2Compressor, CompressionFactory", "zlib and libbz2 (statically linked, unmodified)", "glibc stdio over a cookie stream"],
    "components_stubbed": ["open/read/write/close/dup/fsync/fstat/lseek on /sim/ paths (in-memory file system)", "payload streams are produced by the harness with zlib/libbz2 directly (reference compressor)"],
    "assumptions": ["single-threaded: the decompressor classes are driven directly, no scheduler decisions are involved", "the reference decompression is the identity on the generated payload (the harness compressed it itself)", "payload pieces of 1 MiB-1, 1 MiB, 1 MiB+1, 2 MiB+17 and 3 MiB are generated once in about 150 pieces (half of them read with the shipped 1 MiB buffer); all other pieces are below 200 KB and reach the buffer boundaries through hook H4 sizes"],
}

WRITER_REAL = ["osmium::io::Writer with its pool workers and write thread", "XML/OPL/PBF encoders, string table, PrimitiveBlock", "NoCompressor/GzipCompressor/Bzip2Compressor, reliable_write/fsync/close",
               "osmium::io::Reader pipeline for reading back", "zlib, libbz2, expat, lz4 (statically linked, unmodified)", "glibc stdio over a cookie stream (bzip2)"]

PROPERTIES["C08"] = {
    "level": "fault_enumeration",
    "budget_s": {"quick": 80, "thorough": 1500},
    "rule": "one evaluation = one generated data set written by the real Writer (XML, XML change, OPL, PBF x none/gzip/bzip2 x fsync x feeding script of whole buffers / single items / flush()) under a seeded schedule with soft perturbation (short writes, EINTR on the plain path) and at most one hard fault: the write reaching byte offset o of the would-be output fails (ENOSPC/EFBIG/EIO, with or without a preceding partial write), fsync fails, the n-th close fails, the compressor fails (deflate under gzwrite/gzclose_w/compress2, BZ2_bzCompress, LZ4_compress_fast - in the write thread or in a pool worker), or an object the OPL encoder cannot encode. o is drawn over the size learnt from a fault-free reference write of the same script. "
            "Non-trivial = a fault fired or >= 2 threads enabled at once; distinct = distinct event-log signature.",
    "modes": [
        {"mode": "c08", "harness": "writer", "runs": {"quick": 30000, "thorough": 1500000}, "share": 0.6},
        {"mode": "c08enum", "harness": "writer", "runs": {"quick": 500, "thorough": 20000}, "stall_s": 300, "share": 0.4},
    ],
    "expected_probes": ["hard fault fired", "exception reached the caller", "fault-free or soft-only run succeeded", "enumerated fault points", "the Writer's write thread could not be started", "set_buffer_size() called between writes", "successful write decodes to exactly the objects handed to the Writer"],
    "components_real": WRITER_REAL,
    "components_stubbed": READER_STUB + ["compressor failure (deflate / BZ2_bzCompress / LZ4_compress_fast returning an error on the tape-chosen call) injected by link-time wrappers"],
    "assumptions": COMMON_ASSUMPTIONS + ["mode c08: fault offsets are sampled by the seed over the whole would-be output (with a bias to the last 16 bytes); mode c08enum: every byte offset is enumerated for small workloads (<= 6000 output bytes), one errno/partial/transient variant per workload", "write() returning 0 for a non-zero count is not injected (cannot happen on regular files)"],
}

PROPERTIES["C01"] = {
    "level": "exploration",
    "budget_s": {"quick": 80, "thorough": 1500},
    "rule": "one evaluation = one generated data set (boundary-heavy ids, versions, timestamps, coordinates, Unicode/XML/OPL-special strings, history, changesets with discussions, way node locations) written with a tape-chosen format/compression/option vector (dense, pbf_compression, add_metadata subsets, locations_on_ways, fsync, feeding script) under a seeded schedule with short writes/EINTR, read back under another seeded schedule (pool 1..32, queue bounds, fd or memory, random piece sizes) and compared object by object with the digest of the buffers that were written, after a per-format mask; PBF files are additionally checked by an independent framing parser against the format limits. "
            "Non-trivial = >= 2 threads enabled at once or a soft fault fired; distinct = distinct event-log signature incl. the file bytes.",
    "modes": [
        {"mode": "c01", "harness": "writer", "runs": {"quick": 25000, "thorough": 800000}},
    ],
    "expected_probes": ["round trip compared object by object", "more than 8000 objects of one type (PBF block boundary)"],
    "components_real": WRITER_REAL,
    "components_stubbed": READER_STUB,
    "assumptions": COMMON_ASSUMPTIONS + ["restricted claim: the input/option space is sampled by the workload generator; data sets have up to 120 objects, plus one run in 40 with 8000-9200 nodes so that the 8000-entities-per-block boundary is crossed (checked by the independent framing parser); the 32 MiB block limit is checked by the framing parser but never provoked", "the per-format mask (which fields a format/option carries) is hand-derived from the encoders; each entry cites its source line"],
}

PROPERTIES["C12"] = {
    "level": "exploration",
    "budget_s": {"quick": 90, "thorough": 1500},
    "rule": "one evaluation = one insertion history of distinct ids (dense, around multiples of 2^16 and of the 2^20-element growth steps, sparse 32-bit, mixed, clustered, boundary; sorted/reversed/shuffled) applied to a tape-chosen subset of the registered map types created through MapFactory, sort(), then get()/get_noexcept() over inserted ids, their neighbours and never-inserted ids compared with a std::map; each dumpable map is dumped (as list / as array, through the simulated fd with short writes and EINTR) and reloaded as sparse_file_array / dense_file_array and compared again; FlexMem's dense switch is crossed through hook H3. Environment decisions: in two runs of three every mmap()/mremap() lands at a fresh, never reused address (a pointer kept across a resize faults under ASan); mode 'nospace' lets fstatvfs report a full disk at the n-th growth step; mode 'handler' checks NodeLocationsForWays with positive and negative ids over pairs of map types and node orders. "
            "Non-trivial = every run; distinct = distinct event-log signature (file ops of dump/reload).",
    "modes": [
        {"mode": "maps", "harness": "c12", "runs": {"quick": 1400, "thorough": 40000}, "stall_s": 300, "share": 0.5},
        {"mode": "growth", "harness": "c12", "runs": {"quick": 160, "thorough": 5000}, "stall_s": 400, "share": 0.2},
        {"mode": "flexbig", "harness": "c12", "runs": {"quick": 0, "thorough": 4}, "stall_s": 1200, "share": 0.05},
        {"mode": "handler", "harness": "c12", "runs": {"quick": 3000, "thorough": 100000}, "share": 0.15},
        {"mode": "nospace", "harness": "c12", "runs": {"quick": 600, "thorough": 10000}, "share": 0.15},
    ],
    "expected_probes": ["mremap moved the mapping", "mapping placed at a fresh, never reused address", "dense mmap/file vector grew beyond its first 1 Mi elements", "dumped as array and reloaded", "dumped as list and reloaded", "full disk reported as std::system_error", "sparse or dense mmap/file vector grew beyond 2^20 entries while filling", "FlexMem switched from sparse to dense (lowered threshold)", "FlexMem in dense mode holds several 64Ki blocks"],
    "components_real": ["all registered index map types (dense/sparse x mem/mmap/file, sparse_mem_map, flex_mem) through MapFactory", "osmium::MemoryMapping / mmap_vector_base / mmap_vector_file on real temporary files and real pages", "NodeLocationsForWays", "reliable_write for dumps"],
    "components_stubbed": ["placement of mmap()/mremap() results (always-move policy via MAP_FIXED_NOREPLACE/MREMAP_FIXED on a never reused address range)", "fstatvfs free-space report", "dump target fd (in-memory file with short writes/EINTR); the dumped bytes are copied to a real file for reloading"],
    "assumptions": ["single-threaded: no scheduler decisions are involved", "restricted claim: histories have up to ~600 ids (a few with ids up to 3*2^20 so that the 1 Mi-element growth steps of the dense mmap/file vectors happen); the 2^24-entry FlexMem threshold is crossed through hook H3 (flexmem_min_dense_entries) in the quick tier and at its shipped value only in the thorough tier (mode flexbig, 4 runs); mode growth fills the sparse and dense mmap/file vectors with 2^20+1 .. 2^20+1.2*10^6 entries (stride/offset/order from the tape) and checks sampled probes against a formula model", "after a failed growth (full disk) only the exception type is checked"],
}
