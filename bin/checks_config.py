# Configuration of harness binaries and per-property run plans for bin/check.

LIBS_IO = ["-lz", "-lbz2", "-lexpat", "-llz4"]

HARNESSES = {
    "c19": {
        "source": "c19.cpp",
        "sim_sources": ["sim.cpp", "sanitizer_opts.cpp"],
        "wraps": ["wraps_sched.txt"],
        "libs": [],
        "variants": ["san"],
    },
}

COMMON_ASSUMPTIONS = [
    "threads are pre-empted only at intercepted synchronisation calls (pthread mutex/condvar/create/join/once, futex, simulated file syscalls, explicit hooks); code between two such points runs atomically",
    "sequential consistency: one simulated thread runs at a time, weak-memory effects are not modelled",
    "the simulator's model of each primitive is the POSIX contract (any waiter may be woken, spurious wake-ups, late time-outs)",
    "seeded sampling of schedules/faults/workloads, not exhaustive unless a sub-space is flagged exhaustive",
]

PROPERTIES = {
    "C19": {
        "level": "exploration",
        "budget_s": {"quick": 75, "thorough": 1500},
        "rule": "one evaluation = one simulated run of real osmium::thread::Queue / Pool code with harness producer/consumer/submitter threads under a seeded schedule (strategies: random walk, sticky, PCT-style priorities, starvation; spurious wake-ups; three clock speeds). "
                "A run is non-trivial if at least one scheduling step had >= 2 enabled threads; distinct = distinct schedule signature (hash of the sequence of (thread, sync-op kind, object) triples, addresses replaced by first-seen ids) per mode.",
        "modes": [
            {"mode": "queue", "harness": "c19", "runs": {"quick": 9000, "thorough": 400000}},
            {"mode": "lin", "harness": "c19", "runs": {"quick": 9000, "thorough": 400000}},
            {"mode": "pool", "harness": "c19", "runs": {"quick": 7000, "thorough": 300000}},
        ],
        "expected_probes": ["queue observed full", "condvar timeout fired", "spurious wake-up (condvar)", "shutdown while queue in use",
                            "linearizability histories checked", "two or more tasks running simultaneously", "pool destroyed with futures outstanding"],
        "components_real": ["osmium::thread::Queue", "osmium::thread::Pool", "osmium::thread::function_wrapper", "libstdc++ std::thread/mutex/condition_variable/future/packaged_task (statically linked)"],
        "components_stubbed": ["kernel scheduler and futex (baton scheduler)", "pthread mutex/condvar/once (model)", "clock (discrete-event)"],
        "assumptions": COMMON_ASSUMPTIONS,
    },
}
