// C09 — compressed input is decompressed completely, truncation/corruption is detected.
// Drives the real Decompressor classes (through CompressionFactory) on the simulated file layer or
// on memory buffers; payload streams are produced by zlib/libbz2 called directly from this harness,
// independent of libosmium's Compressor classes (mode "own" uses those instead and reads back).

#include "sim.hpp"
#include "simfs.hpp"

#include <osmium/io/bzip2_compression.hpp>
#include <osmium/io/compression.hpp>
#include <osmium/io/gzip_compression.hpp>
#include <osmium/io/detail/read_write.hpp>

#include <bzlib.h>
#include <fcntl.h>
#include <unistd.h>
#include <zlib.h>

#include <atomic>
#include <cxxabi.h>
#include <memory>
#include <sstream>
#include <string>
#include <vector>

using sim::choose;
using sim::S_CONF;
using sim::S_FAULT;
using sim::S_WORK;

namespace {

std::string gz_member(const std::string& data, int level) {
    z_stream zs{};
    if (deflateInit2(&zs, level, Z_DEFLATED, 15 + 16, 8, Z_DEFAULT_STRATEGY) != Z_OK) { return {}; }
    std::string out(deflateBound(&zs, data.size()) + 64, '\0');
    zs.next_in = reinterpret_cast<Bytef*>(const_cast<char*>(data.data()));
    zs.avail_in = static_cast<uInt>(data.size());
    zs.next_out = reinterpret_cast<Bytef*>(&out[0]);
    zs.avail_out = static_cast<uInt>(out.size());
    deflate(&zs, Z_FINISH);
    out.resize(out.size() - zs.avail_out);
    deflateEnd(&zs);
    return out;
}

std::string bz_stream(const std::string& data, int block) {
    unsigned int len = static_cast<unsigned int>(data.size() + data.size() / 50 + 1000);
    std::string out(len, '\0');
    BZ2_bzBuffToBuffCompress(&out[0], &len, const_cast<char*>(data.data()), static_cast<unsigned int>(data.size()), block, 0, 0);
    out.resize(len);
    return out;
}

std::string gen_payload(size_t size) {
    std::string p;
    p.reserve(size);
    const uint32_t style = choose(S_WORK, 3);
    uint64_t x = sim::choose64(S_WORK) | 1;
    static const char* words[] = {"n1 v1 dV c0 t i0 u T x1 y2\n", "w2 v1 Thighway=residential Nn1,n2\n", "<node id=\"1\" lat=\"1.0\" lon=\"2.0\"/>\n", "r3 Mn1@,w2@outer\n"};
    while (p.size() < size) {
        x ^= x << 13; x ^= x >> 7; x ^= x << 17;
        if (style == 0) {
            p += words[x % 4];
        } else if (style == 1) {
            p += static_cast<char>(x >> 24); // incompressible
        } else {
            p += words[x % 4];
            p += static_cast<char>('a' + (x >> 16) % 26);
        }
    }
    p.resize(size);
    return p;
}


// payload whose compressed stream has exactly `target` bytes (stream ends exactly at a read-ahead boundary:
// 5000 = libbz2, 4096 = stdio, 8192 = zlib's input buffer). Incompressible data: size tracks the input ~1:1.
std::string payload_for_compressed_size(bool gzip, size_t target, bool* exact) {
    uint64_t x = sim::choose64(S_WORK) | 1;
    std::string base;
    base.reserve(target + 64);
    for (size_t i = 0; i < target + 64; ++i) {
        x ^= x << 13; x ^= x >> 7; x ^= x << 17;
        base += static_cast<char>(x >> 24);
    }
    size_t n = target > 60 ? target - 40 : 1;
    *exact = false;
    for (int it = 0; it < 14; ++it) {
        const std::string c = gzip ? gz_member(base.substr(0, n), 6) : bz_stream(base.substr(0, n), 1);
        if (c.size() == target) {
            *exact = true;
            break;
        }
        if (c.size() < target) { n += (target - c.size() > 3) ? (target - c.size()) - 1 : 1; }
        else { const size_t d = c.size() - target; n = n > d ? n - d : 1; }
        if (n > base.size()) { n = base.size(); }
    }
    return base.substr(0, n);
}

size_t pick_size() {
    // sizes around every internal boundary: 0, 1, S+-1, 4096 (stdio), 5000 (libbz2 read-ahead), 10240 (buffer window), 64 KiB
    static const size_t anchors[] = {0, 1, 2, 100, 4095, 4096, 4097, 4999, 5000, 5001, 9999, 10000, 10239, 10240, 10241, 20480, 65535, 65536, 65537, 200000};
    // one pick in 150: the shipped 1 MiB output buffer boundary and several MiB
    if (choose(S_WORK, 150) == 149) {
        static const size_t big[] = {1048575, 1048576, 1048577, 2097152 + 17, 3 * 1048576};
        return big[choose(S_WORK, 5)];
    }
    const uint32_t k = choose(S_WORK, 24);
    if (k < 20) { return anchors[k]; }
    return choose(S_WORK, 30000);
}

std::string demangle(const char* n) {
    int st = 0;
    char* d = abi::__cxa_demangle(n, nullptr, nullptr, &st);
    std::string r = (st == 0 && d) ? d : n;
    free(d);
    return r;
}

struct Result {
    bool threw = false;
    bool nonstd = false;
    std::string exc_type, exc_what, where;
    std::string data;
    bool empty_chunk_before_end = false;
    bool offset_exceeded = false;
    size_t max_offset = 0;
    size_t fds_left = 0;
};

// read everything through the library's decompressor
Result decompress(osmium::io::file_compression comp, bool from_buffer, const std::string& file, const std::string& path) {
    Result r;
    std::atomic<std::size_t> offset{0};
    const auto& factory = osmium::io::CompressionFactory::instance();
    try {
        std::unique_ptr<osmium::io::Decompressor> d;
        r.where = "open";
        if (from_buffer) {
            d = factory.create_decompressor(comp, file.data(), file.size());
        } else {
            const int fd = osmium::io::detail::open_for_reading(path);
            d = factory.create_decompressor(comp, fd);
        }
        d->set_offset_ptr(&offset);
        r.where = "read";
        for (int guard = 0; guard < 10000000; ++guard) {
            const std::string chunk = d->read();
            const size_t off = offset.load();
            if (off > r.max_offset) { r.max_offset = off; }
            if (off > file.size()) { r.offset_exceeded = true; }
            if (chunk.empty()) { break; } // end-of-data marker of the pipeline
            r.data += chunk;
        }
        r.where = "close";
        d->close();
    } catch (const std::exception& e) {
        r.threw = true;
        r.exc_type = demangle(typeid(e).name());
        r.exc_what = e.what();
    } catch (...) {
        r.threw = true;
        r.nonstd = true;
    }
    r.fds_left = simfs::open_fd_count();
    if (r.fds_left) { simfs::force_close_all(); }
    return r;
}


// Does zlib's own gz layer report anything for this file when driven the plain way (gzdopen, gzread loop with the
// same request size, gzclose_r)? Used only to label a silently accepted truncated/corrupt gzip *file* as
// "zlib-silent" (inherited from zlib: nothing libosmium could have checked) or "zlib-reports-error" (zlib
// said so and the library lost it). Never used to excuse anything but the signature label.
bool zlib_itself_reports(const std::string& path, size_t request) {
    const int fd = ::open(path.c_str(), O_RDONLY);
    if (fd < 0) { return true; }
    gzFile g = ::gzdopen(fd, "rb");
    if (!g) {
        ::close(fd);
        return true;
    }
    std::string buf(request ? request : 1024U * 1024U, '\0');
    bool error = false;
    for (;;) {
        const int n = ::gzread(g, &buf[0], static_cast<unsigned>(buf.size()));
        if (n < 0) { error = true; break; }
        if (n == 0) { break; }
        if (::gzdirect(g)) { error = true; break; }
    }
    if (::gzclose_r(g) != Z_OK) { error = true; }
    return error;
}

std::string bucket(size_t n) {
    if (n == 0) { return "0"; }
    if (n == 1) { return "1"; }
    if (n < 10) { return "2-9"; }
    if (n < 18) { return "10-17"; }
    return "18+";
}

void run_c09(const std::string& mode) {
    simfs::reset();
    sim::clear_values();
    const bool gzip = choose(S_CONF, 2) == 0;
    const bool from_buffer = choose(S_CONF, 2) == 0;
    const osmium::io::file_compression comp = gzip ? osmium::io::file_compression::gzip : osmium::io::file_compression::bzip2;
    const std::string kind = std::string{gzip ? "gzip" : "bzip2"} + (from_buffer ? "/buffer" : "/fd");
    const std::string path = std::string{"/sim/c09."} + (gzip ? "gz" : "bz2");

    // ---- payload and streams
    const uint32_t nstreams = (mode == "own") ? 1 : 1 + (choose(S_WORK, 3) == 0 ? 0 : choose(S_WORK, 4));
    std::vector<std::string> pieces, streams;
    std::string payload, file;
    std::vector<size_t> boundaries; // compressed offsets at which a complete stream ends
    std::vector<size_t> payload_at_boundary;
    for (uint32_t i = 0; i < nstreams; ++i) {
        size_t sz = pick_size();
        if (nstreams > 1 && sz > 70000 && sz < 1000000) { sz = 70000; }
        if (i > 0 && choose(S_WORK, 6) == 0) { sz = 0; } // empty stream in the middle or at the end
        if (mode != "own" && choose(S_WORK, 10) == 0) {
            // stream that ends exactly on a read-ahead boundary of the layers below
            static const size_t targets[] = {4096, 5000, 8192, 10000, 15000};
            bool exact = false;
            pieces.push_back(payload_for_compressed_size(gzip, targets[choose(S_WORK, 5)], &exact));
            if (exact) { sim::probe("stream ends exactly on a 4096/5000/8192-byte boundary"); }
            continue;
        }
        pieces.push_back(gen_payload(sz));
    }
    sim::RunConfig cfg;
    cfg.preemptive = false;
    if (mode == "own") {
        // written by the library's own compressor, read back
        sim::begin_run(cfg);
        {
            sim::QuietScope quiet;
            const int fd = osmium::io::detail::open_for_writing(path, osmium::io::overwrite::allow);
            auto c = osmium::io::CompressionFactory::instance().create_compressor(comp, fd, choose(S_CONF, 2) ? osmium::io::fsync::yes : osmium::io::fsync::no);
            // hand the data over in several writes
            const std::string& p = pieces[0];
            size_t pos = 0;
            while (pos < p.size()) {
                size_t n = 1 + choose(S_WORK, 20000);
                if (n > p.size() - pos) { n = p.size() - pos; }
                c->write(p.substr(pos, n));
                pos += n;
            }
            c->close();
        }
        sim::end_run();
        simfs::get_file(path, &file);
        payload = pieces[0];
        boundaries.push_back(file.size());
        payload_at_boundary.push_back(payload.size());
    } else {
        for (const auto& p : pieces) {
            const std::string s = gzip ? gz_member(p, 1 + static_cast<int>(choose(S_WORK, 9))) : bz_stream(p, 1 + static_cast<int>(choose(S_WORK, 9)));
            streams.push_back(s);
            file += s;
            payload += p;
            boundaries.push_back(file.size());
            payload_at_boundary.push_back(payload.size());
        }
    }

    // ---- fault: none / truncation / single byte corruption
    const uint32_t fk = (mode == "clean" || mode == "own") ? 0 : choose(S_FAULT, 3);
    std::string fault_desc = "none";
    size_t trunc_len = file.size();
    size_t corrupt_pos = 0;
    if (fk == 1 && !file.empty()) {
        // bias towards stream boundaries +- a few bytes
        if (choose(S_FAULT, 2) == 0) {
            const size_t b = boundaries[choose(S_FAULT, static_cast<uint32_t>(boundaries.size()))];
            const int delta = static_cast<int>(choose(S_FAULT, 41)) - 20;
            long l = static_cast<long>(b) + delta;
            if (l < 0) { l = 0; }
            if (l > static_cast<long>(file.size())) { l = static_cast<long>(file.size()); }
            trunc_len = static_cast<size_t>(l);
        } else {
            trunc_len = choose(S_FAULT, static_cast<uint32_t>(file.size()) + 1);
        }
        file.resize(trunc_len);
        fault_desc = "truncated to " + std::to_string(trunc_len);
    } else if (fk == 2 && !file.empty()) {
        corrupt_pos = choose(S_FAULT, static_cast<uint32_t>(file.size()));
        if (choose(S_FAULT, 3) == 0) {
            // first bytes of a stream (magic / header)
            const size_t b = choose(S_FAULT, static_cast<uint32_t>(boundaries.size()));
            const size_t start = b == 0 ? 0 : boundaries[b - 1];
            corrupt_pos = start + choose(S_FAULT, 12);
            if (corrupt_pos >= file.size()) { corrupt_pos = file.size() - 1; }
        }
        const unsigned char old = static_cast<unsigned char>(file[corrupt_pos]);
        unsigned char nv = static_cast<unsigned char>(old ^ (1U << choose(S_FAULT, 8)));
        if (choose(S_FAULT, 3) == 0) { nv = static_cast<unsigned char>(choose(S_FAULT, 256)); }
        if (nv == old) { nv = static_cast<unsigned char>(old ^ 0xff); }
        file[corrupt_pos] = static_cast<char>(nv);
        fault_desc = "byte " + std::to_string(corrupt_pos) + " changed";
    }
    simfs::put_file(path, file);
    {
        uint64_t h = 1469598103934665603ULL;
        for (unsigned char c : file) { h = (h ^ c) * 1099511628211ULL; }
        sim::add_to_signature(h ^ (from_buffer ? 0x55 : 0) ^ (static_cast<uint64_t>(fk) << 56));
    }

    // ---- piece sizes
    static const unsigned long bufsizes[] = {0, 65536, 10240, 5000, 4096, 1000, 100, 17, 3, 1};
    unsigned long bs = bufsizes[choose(sim::S_IO, 10)];
    if (payload.size() >= 1000000 && choose(sim::S_IO, 2)) { bs = 0; } // MiB-sized payloads mostly with the shipped 1 MiB buffer
    while (bs && payload.size() / bs > 3000) { bs *= 4; }
    if (payload.size() >= 1000000) { sim::probe(bs == 0 ? "payload of 1 MiB or more read with the shipped 1 MiB buffer" : "payload of 1 MiB or more"); }
    if (payload.size() > 300000 && bs == 0) { bs = 0; } // shipped 1 MiB only for moderately sized payloads: fine
    simfs::Soft soft;
    std::string chunk_desc;
    if (from_buffer) {
        static const size_t clamps[] = {0, 0, 4096, 1000, 100, 17, 1};
        size_t c = clamps[choose(sim::S_IO, 7)];
        while (c && payload.size() / c > 3000) { c *= 4; }
        sim::set_decomp_clamp(c);
        chunk_desc = c ? "decompressor output window clamped to " + std::to_string(c) : "10240-byte output window (shipped)";
    } else {
        if (bs) { sim::set_value("input_buffer_size", bs); }
        chunk_desc = bs ? "output buffer " + std::to_string(bs) + " bytes (hook H4)" : "output buffer 1 MiB (shipped)";
        // EINTR reaches zlib's read() / stdio's fread(): the library may fail or succeed, never return wrong data
        if (fk == 0 && choose(sim::S_IO, 8) == 7) {
            soft.eintr_one_in = 6;
            chunk_desc += ", EINTR";
        }
        const uint32_t rd = choose(sim::S_IO, 3);
        if (rd == 1) {
            soft.chunk_mode = 2;
            chunk_desc += ", fd reads of random length";
        } else if (rd == 2) {
            static const size_t fixed[] = {1, 7, 100, 512, 4096, 5000};
            soft.chunk_mode = 1;
            soft.chunk = fixed[choose(sim::S_IO, 6)];
            while (file.size() / soft.chunk > 3000) { soft.chunk *= 4; }
            chunk_desc += ", fd reads of " + std::to_string(soft.chunk) + " bytes";
        }
    }

    cfg.preemptive = true;
    sim::begin_run(cfg);
    simfs::set_soft(soft);
    const Result r = decompress(comp, from_buffer, file, path);
    std::string zlib_label;
    if (gzip && !from_buffer && fk != 0 && !r.threw) {
        zlib_label = zlib_itself_reports(path, bs) ? "/zlib-reports-error" : "/zlib-silent";
        simfs::force_close_all();
    }
    sim::end_run();
    sim::set_decomp_clamp(0);
    sim::clear_values();
    simfs::set_soft(simfs::Soft{});

    std::ostringstream sample;
    sample << "{\"kind\":\"" << kind << "\",\"mode\":\"" << mode << "\",\"streams\":" << nstreams << ",\"piece_sizes\":[";
    for (size_t i = 0; i < pieces.size(); ++i) { sample << (i ? "," : "") << pieces[i].size(); }
    sample << "],\"compressed_bytes\":" << file.size() << ",\"fault\":\"" << fault_desc << "\",\"pieces\":\"" << chunk_desc << "\",\"outcome\":\""
           << (r.threw ? "exception " + r.exc_type : std::to_string(r.data.size()) + " bytes") << "\"}";
    sim::set_sample(sample.str());
    sim::set_nontrivial(nstreams > 1 || fk != 0 || bs != 0 || soft.chunk_mode != 0 || from_buffer);
    if (nstreams > 1) { sim::probe("multi-stream file"); }
    if (fk == 1) { sim::probe("truncated file"); }
    if (fk == 2) { sim::probe("corrupted file"); }

    // ---- oracles
    if (r.nonstd) { sim::report("oracle", "C09.exception/" + kind + "/non-std", "non-std exception"); }
    if (r.fds_left) { sim::probe("decompressor left the fd open"); }
    if (r.offset_exceeded) {
        sim::report("oracle", "C09.offset/" + kind + "/exceeds-file-size", "published offset " + std::to_string(r.max_offset) + " exceeds the file size " + std::to_string(file.size()));
    }
    if (fk == 0 && soft.eintr_one_in != 0 && r.threw) {
        sim::probe("EINTR under zlib/stdio reported as an error (allowed)");
    } else if (fk == 0) {
        if (r.threw) {
            sim::report("oracle", "C09.complete/" + kind + "/valid-file-rejected-" + std::to_string(nstreams > 1 ? 2 : 1) + "-streams", "valid file (" + std::to_string(nstreams) + " streams) rejected: " + r.exc_type + ": " + r.exc_what);
        } else if (r.data != payload) {
            // which stream is the first one missing?
            size_t complete = 0;
            while (complete < payload_at_boundary.size() && payload_at_boundary[complete] <= r.data.size()) { ++complete; }
            const bool prefix = payload.compare(0, r.data.size(), r.data) == 0;
            std::string cond = prefix ? "short" : "wrong-bytes";
            if (prefix && nstreams > 1) {
                // distinguishing condition for the signature: empty stream involved? boundary inside the read-ahead of the previous read?
                bool after_empty = false;
                for (size_t i = 1; i < pieces.size() && i <= complete; ++i) { if (pieces[i - 1].empty() || pieces[i].empty()) { after_empty = true; } }
                cond = std::string{"stops-after-stream-"} + (complete <= 1 ? "1" : "n") + (after_empty ? "/empty-stream" : "");
            }
            sim::report("oracle", "C09.complete/" + kind + "/" + cond, "decompressed " + std::to_string(r.data.size()) + " of " + std::to_string(payload.size()) + " bytes from a valid file of " + std::to_string(nstreams) + " streams without an error" + (prefix ? "" : " (and the bytes differ)"));
        }
    } else if (fk == 1) {
        // truncated at trunc_len: a stream boundary -> payload of the complete streams; otherwise an exception
        bool at_boundary = trunc_len == 0;
        size_t expect = 0;
        size_t tail = trunc_len;
        size_t complete_streams = 0;
        for (size_t i = 0; i < boundaries.size(); ++i) {
            if (boundaries[i] <= trunc_len) { expect = payload_at_boundary[i]; tail = trunc_len - boundaries[i]; complete_streams = i + 1; }
            if (boundaries[i] == trunc_len) { at_boundary = true; }
        }
        // all data of the cut stream delivered (only its trailer is missing) or less?
        const size_t full_cut_stream = complete_streams < payload_at_boundary.size() ? payload_at_boundary[complete_streams] : payload.size();
        const std::string completeness = (r.data.size() == full_cut_stream && full_cut_stream > expect) ? "/data-complete-trailer-cut" : "/data-short";
        if (trunc_len == file.size() && trunc_len == boundaries.back()) { at_boundary = true; }
        if (at_boundary) {
            if (trunc_len == 0) {
                // an empty file is not a compressed stream at all; either outcome (error or empty) is acceptable
            } else if (r.threw) {
                sim::report("oracle", "C09.truncation/" + kind + "/complete-streams-rejected", "file cut exactly at a stream boundary rejected: " + r.exc_what);
            } else if (r.data != payload.substr(0, expect)) {
                sim::report("oracle", "C09.truncation/" + kind + "/complete-streams-wrong-data", "file cut at a stream boundary: got " + std::to_string(r.data.size()) + " bytes, expected " + std::to_string(expect));
            }
        } else if (!r.threw) {
            sim::report("oracle", "C09.truncation/" + kind + "/accepted/tail-" + bucket(tail) + (complete_streams == 0 ? "/first-stream" : "/later-stream") + completeness + zlib_label,
                        "file truncated to " + std::to_string(trunc_len) + " bytes (" + std::to_string(tail) + " bytes into a stream) accepted as a complete file of " + std::to_string(r.data.size()) + " bytes");
        } else {
            sim::probe("truncation detected");
        }
    } else {
        // single byte corruption: exception, or exactly the payload (don't-care bits)
        if (!r.threw && r.data != payload) {
            size_t stream_idx = 0;
            while (stream_idx < boundaries.size() && boundaries[stream_idx] <= corrupt_pos) { ++stream_idx; }
            const size_t start = stream_idx == 0 ? 0 : boundaries[stream_idx - 1];
            const size_t rel = corrupt_pos - start;
            sim::report("oracle", "C09.corruption/" + kind + "/accepted-with-wrong-data/" + (stream_idx == 0 ? "first-stream" : "later-stream") + "/byte-" + (rel < 2 ? "magic" : (rel < 10 ? "header" : "body")) + zlib_label,
                        "byte " + std::to_string(corrupt_pos) + " (offset " + std::to_string(rel) + " of stream " + std::to_string(stream_idx + 1) + ") changed; accepted with " + std::to_string(r.data.size()) + " bytes instead of " + std::to_string(payload.size()));
        } else if (r.threw) {
            sim::probe("corruption detected");
        } else {
            sim::probe("corruption in don't-care bits");
        }
    }
}


// Exhaustive fault enumeration for one small multi-stream file: every truncation length and, at every byte
// offset, three single-byte corruptions. One run = one file (chosen by the tape), all its fault points.
void run_c09_enum() {
    simfs::reset();
    sim::clear_values();
    const bool gzip = choose(S_CONF, 2) == 0;
    const bool from_buffer = choose(S_CONF, 2) == 0;
    const osmium::io::file_compression comp = gzip ? osmium::io::file_compression::gzip : osmium::io::file_compression::bzip2;
    const std::string kind = std::string{gzip ? "gzip" : "bzip2"} + (from_buffer ? "/buffer" : "/fd");
    const std::string path = std::string{"/sim/c09e."} + (gzip ? "gz" : "bz2");
    // "big": one or two streams whose decompressed size lies around multiples of the decompressors' 10240-byte output
    // piece (truncations only): a cut after which the available input decodes to exactly k full output pieces is a
    // boundary of its own. Stored (level 0) and poorly compressible data make such cuts frequent.
    const bool big = choose(S_WORK, 6) == 0;
    const uint32_t nstreams = big ? 1 + choose(S_WORK, 2) : 1 + choose(S_WORK, 3);
    static const int levels[] = {0, 1, 6, 9};
    std::string payload, file;
    std::vector<size_t> boundaries, payload_at_boundary;
    for (uint32_t i = 0; i < nstreams; ++i) {
        const size_t big_size = 10240 * (1 + choose(S_WORK, 2)) + choose(S_WORK, 7) - 3 + (choose(S_WORK, 2) ? 0 : choose(S_WORK, 3000));
        const std::string p = gen_payload(big ? big_size : (choose(S_WORK, 4) == 0 ? 0 : 1 + choose(S_WORK, 120)));
        file += gzip ? gz_member(p, big ? levels[choose(S_WORK, 4)] : 6) : bz_stream(p, 1);
        payload += p;
        boundaries.push_back(file.size());
        payload_at_boundary.push_back(payload.size());
    }
    static const unsigned long bufsizes[] = {0, 4096, 100, 17, 3, 1};
    const unsigned long bs = bufsizes[choose(sim::S_IO, big ? 2 : 6)];
    simfs::Soft soft;
    if (!from_buffer && choose(sim::S_IO, 2)) {
        static const size_t fixed[] = {1, 7, 100};
        soft.chunk_mode = 1;
        soft.chunk = fixed[choose(sim::S_IO, 3)];
        if (big) { soft.chunk = 1000 + soft.chunk; } // bounded number of read(2) calls per truncation point
    }
    sim::RunConfig cfg;
    cfg.preemptive = false;
    sim::begin_run(cfg);
    simfs::set_soft(soft);
    if (from_buffer) { sim::set_decomp_clamp(bs); } else if (bs) { sim::set_value("input_buffer_size", bs); }
    uint64_t cases = 0, trunc_detected = 0, corrupt_detected = 0, corrupt_dontcare = 0;
    // truncations
    for (size_t len = 0; len <= file.size(); ++len) {
        const std::string f = file.substr(0, len);
        simfs::put_file(path, f);
        const Result r = decompress(comp, from_buffer, f, path);
        ++cases;
        std::string zlib_label;
        if (gzip && !from_buffer && !r.threw) {
            zlib_label = zlib_itself_reports(path, bs) ? "/zlib-reports-error" : "/zlib-silent";
            simfs::force_close_all();
        }
        bool at_boundary = len == 0;
        size_t expect = 0, tail = len, complete_streams = 0;
        for (size_t i = 0; i < boundaries.size(); ++i) {
            if (boundaries[i] <= len) { expect = payload_at_boundary[i]; tail = len - boundaries[i]; complete_streams = i + 1; }
            if (boundaries[i] == len) { at_boundary = true; }
        }
        const size_t full_cut_stream = complete_streams < payload_at_boundary.size() ? payload_at_boundary[complete_streams] : payload.size();
        const std::string completeness = (r.data.size() == full_cut_stream && full_cut_stream > expect) ? "/data-complete-trailer-cut" : "/data-short";
        if (r.nonstd) { sim::report("oracle", "C09.exception/" + kind + "/non-std", "non-std exception at truncation " + std::to_string(len)); }
        if (r.offset_exceeded) { sim::report("oracle", "C09.offset/" + kind + "/exceeds-file-size", "offset beyond file size at truncation " + std::to_string(len)); }
        if (at_boundary) {
            if (len > 0 && r.threw) { sim::report("oracle", "C09.truncation/" + kind + "/complete-streams-rejected", "cut at stream boundary " + std::to_string(len) + " rejected: " + r.exc_what); }
            else if (len > 0 && r.data != payload.substr(0, expect)) { sim::report("oracle", "C09.truncation/" + kind + "/complete-streams-wrong-data", "cut at stream boundary " + std::to_string(len) + ": got " + std::to_string(r.data.size()) + " bytes, expected " + std::to_string(expect)); }
        } else if (!r.threw) {
            sim::report("oracle", "C09.truncation/" + kind + "/accepted/tail-" + bucket(tail) + (complete_streams == 0 ? "/first-stream" : "/later-stream") + completeness + zlib_label,
                        "file of " + std::to_string(file.size()) + " bytes truncated to " + std::to_string(len) + " (" + std::to_string(tail) + " bytes into a stream) accepted as " + std::to_string(r.data.size()) + " bytes");
        } else {
            ++trunc_detected;
        }
    }
    // single byte corruptions
    static const unsigned char masks[] = {0x01, 0x80, 0xff};
    for (size_t pos = 0; pos < (big ? 0 : file.size()); ++pos) {
        for (unsigned char m : masks) {
            std::string f = file;
            f[pos] = static_cast<char>(static_cast<unsigned char>(f[pos]) ^ m);
            simfs::put_file(path, f);
            const Result r = decompress(comp, from_buffer, f, path);
            ++cases;
            std::string zlib_label;
            if (gzip && !from_buffer && !r.threw && r.data != payload) {
                zlib_label = zlib_itself_reports(path, bs) ? "/zlib-reports-error" : "/zlib-silent";
                simfs::force_close_all();
            }
            if (r.nonstd) { sim::report("oracle", "C09.exception/" + kind + "/non-std", "non-std exception at corruption " + std::to_string(pos)); }
            if (!r.threw && r.data != payload) {
                size_t stream_idx = 0;
                while (stream_idx < boundaries.size() && boundaries[stream_idx] <= pos) { ++stream_idx; }
                const size_t start = stream_idx == 0 ? 0 : boundaries[stream_idx - 1];
                const size_t rel = pos - start;
                sim::report("oracle", "C09.corruption/" + kind + "/accepted-with-wrong-data/" + (stream_idx == 0 ? "first-stream" : "later-stream") + "/byte-" + (rel < 2 ? "magic" : (rel < 10 ? "header" : "body")) + zlib_label,
                            "byte " + std::to_string(pos) + " xor " + std::to_string(m) + " (offset " + std::to_string(rel) + " of stream " + std::to_string(stream_idx + 1) + "); accepted with " + std::to_string(r.data.size()) + " bytes instead of " + std::to_string(payload.size()));
            } else if (r.threw) {
                ++corrupt_detected;
            } else {
                ++corrupt_dontcare;
            }
        }
    }
    sim::end_run();
    sim::set_decomp_clamp(0);
    sim::clear_values();
    simfs::set_soft(simfs::Soft{});
    sim::probe("enumerated fault points", cases);
    if (big) { sim::probe("enumerated every truncation of a file decompressing to more than one 10240-byte output piece"); }
    sim::probe("truncation detected", trunc_detected);
    sim::probe("corruption detected", corrupt_detected);
    sim::probe("corruption in don't-care bits", corrupt_dontcare);
    sim::fault_fired("truncation (enumerated)", file.size() + 1);
    sim::fault_fired("single byte corruption (enumerated)", file.size() * 3);
    std::ostringstream sample;
    sample << "{\"kind\":\"" << kind << "\",\"mode\":\"enum\",\"streams\":" << nstreams << ",\"compressed_bytes\":" << file.size() << ",\"payload_bytes\":" << payload.size()
           << ",\"fault_points\":" << cases << ",\"buffer\":" << bs << "}";
    sim::set_sample(sample.str());
    sim::set_field("exhaustive_subspace", "\"every truncation length and every single-byte corruption (xor 0x01/0x80/0xff at every offset) of each small 1-3 stream gzip/bzip2 file generated in mode enum\"");
    sim::set_nontrivial(true);
}

} // namespace

int main(int argc, char** argv) {
    return sim::worker_main(argc, argv, [](const sim::RunInfo& info) {
        if (info.mode == "enum") { run_c09_enum(); } else { run_c09(info.mode); }
    });
}
