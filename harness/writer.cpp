// Writer pipeline harness: C08 (complete file or exception; OS write errors never lost) and
// C01 (write -> read round trip is lossless). Real osmium::io::Writer with its pool workers and write
// thread, real compressors, simulated scheduler and file layer. See DESIGN.md section 5.

#include "sim.hpp"
#include "simfs.hpp"
#include "model.hpp"
#include "o5m_encode.hpp"
#include "pbf_encode.hpp"

#include <osmium/io/any_input.hpp>
#include <osmium/io/any_output.hpp>
#include <osmium/io/input_iterator.hpp>
#include <osmium/thread/pool.hpp>

#include <zlib.h>

#include <algorithm>
#include <chrono>
#include <cstdio>
#include <cxxabi.h>
#include <fstream>
#include <memory>
#include <sstream>
#include <string>
#include <thread>
#include <typeinfo>
#include <vector>

using sim::choose;
using sim::S_CONF;
using sim::S_FAULT;
using sim::S_WORK;

#include "pipeline_common.inc"

namespace {

// ------------------------------------------------------------------------------------------------
// what to write and how

struct WritePlan {
    int format = 0;          // 0 xml, 1 xml change (osc), 2 opl, 3 pbf
    int compression = 0;     // 0 none, 1 gz, 2 bz2
    std::string suffix;
    std::string options;     // format options (pbf_dense_nodes=..., add_metadata=..., locations_on_ways)
    bool fsync = false;
    bool history = false;
    std::string add_metadata;   // "" = all
    bool locations_on_ways = false;
    // feeding script: per batch of objects: 0 = whole buffer, 1 = item by item; flush after?
    struct Step { size_t from, to; int how; bool flush_after; size_t set_size; };   // set_size: set_buffer_size() before this step (0 = no call)
    std::vector<Step> steps;
    size_t buffer_size = 0;  // set_buffer_size (0 = default)
};

WritePlan gen_plan(const model::Data& d, bool for_c01, int format) {
    WritePlan p;
    p.format = format;
    p.history = d.history;
    p.compression = static_cast<int>(choose(S_WORK, 3));
    if (p.format == 3 && choose(S_WORK, 3) != 0) { p.compression = 0; }   // PBF mostly without file compression, but that cell of the matrix exists too
    static const char* base[] = {"osm", "osc", "opl", "pbf"};
    p.suffix = base[p.format];
    if (p.history) {
        if (p.format == 0) { p.suffix = "osh"; }
        if (p.format == 2) { p.suffix = "osh.opl"; }
        if (p.format == 3) { p.suffix = "osh.pbf"; }
    }
    if (p.compression == 1) { p.suffix += ".gz"; }
    if (p.compression == 2) { p.suffix += ".bz2"; }
    std::vector<std::string> opts;
    if (p.format == 3) {
        if (choose(S_WORK, 2)) { opts.push_back("pbf_dense_nodes=false"); }
        static const char* comp[] = {"", "pbf_compression=none", "pbf_compression=lz4"};
        const char* c = comp[choose(S_WORK, 3)];
        if (*c) { opts.push_back(c); }
        if (*c == 0 && choose(S_WORK, 4) == 0) { opts.push_back("pbf_compression_level=" + std::to_string(1 + choose(S_WORK, 9))); }
    }
    if (for_c01 && choose(S_WORK, 4) == 0) {
        static const char* metas[] = {"none", "version", "version+timestamp", "all", "version+changeset+uid", "timestamp+user", "true", "false"};
        p.add_metadata = metas[choose(S_WORK, 8)];
        opts.push_back("add_metadata=" + p.add_metadata);
    }
    p.locations_on_ways = false;
    for (const auto& o : d.objs) {
        if (o.type == 'w' && !o.nodes.empty() && o.nodes[0].has_loc) { p.locations_on_ways = true; }
    }
    if (p.locations_on_ways) { opts.push_back("locations_on_ways=true"); }
    for (size_t i = 0; i < opts.size(); ++i) { p.options += (i ? "," : "") + opts[i]; }
    p.fsync = choose(S_WORK, 2) != 0;
    size_t i = 0;
    while (i < d.objs.size()) {
        const size_t n = 1 + choose(S_WORK, 60);
        static const size_t step_sizes[] = {65536, 262144, 1048576};
        WritePlan::Step s{i, std::min(d.objs.size(), i + n), static_cast<int>(choose(S_WORK, 3) == 0), choose(S_WORK, 5) == 0, 0};
        if (i > 0 && choose(S_WORK, 5) == 0) { s.set_size = step_sizes[choose(S_WORK, 3)]; }   // documented: takes effect after the next flush
        p.steps.push_back(s);
        i = s.to;
    }
    static const size_t bsizes[] = {0, 0, 65536, 262144};
    p.buffer_size = bsizes[choose(S_WORK, 4)];
    return p;
}

model::Profile profile_for_write(bool for_c01, int format) {
    model::Profile p;
    p.max_objects = for_c01 ? 120 : 80;
    // one run in six is large enough that the compressors hand several blocks to write(2) before close()
    // (zlib and stdio buffer 8 KiB and 4 KiB of output)
    if (choose(S_WORK, 6) == 5) {
        p.max_objects = 700;
        p.max_tags = 8;
    }
    p.history = choose(S_WORK, 4) == 0 || format == 1;   // a change file is a multi-version file
    p.changesets = choose(S_WORK, 3) == 0 && format != 1;   // change files hold nodes, ways and relations only; PBF drops changesets
    p.comments = p.changesets && choose(S_WORK, 2);
    p.order = static_cast<int>(choose(S_WORK, 3));
    p.way_locations = choose(S_WORK, 5) == 0;
    p.nasty_strings = choose(S_WORK, 4) != 0;
    if (for_c01 && choose(S_WORK, 40) == 39) {
        // block boundary: more than 8000 entities of one type, so that the PBF writer has to start a second block
        p.exact_objects = 8000 + choose(S_WORK, 1200);
        p.only_nodes = true;
        p.max_tags = 1;
        p.nasty_strings = false;
        p.changesets = false;
    }
    p.wild_locations = for_c01 && choose(S_WORK, 2) != 0;
    p.invalid_coordinates = format == 3;
    return p;
}

struct WriteResult {
    bool threw = false;
    bool nonstd = false;
    std::string where, exc_type, exc_what;
    size_t close_value = 0;
    bool closed_ok = false;
    bool refuses_after_error = true;
    bool dirty_after_close = false;
    int threads_left = 0;
    size_t fds_left = 0;
    std::string bytes;
    size_t size_on_disk = 0;
    uint64_t thread_start_failures = 0;
};

const char* OUT_PREFIX = "/sim/out.";

template <typename F>
bool wguard(WriteResult& r, const char* where, F&& f) {
    try {
        f();
        return true;
    } catch (const std::exception& e) {
        if (!r.threw) {
            r.threw = true;
            r.where = where;
            r.exc_type = demangle(typeid(e).name());
            r.exc_what = e.what();
        }
    } catch (...) {
        if (!r.threw) {
            r.threw = true;
            r.where = where;
            r.exc_type = "non-std-exception";
        }
        r.nonstd = true;
    }
    return false;
}

// executes the plan; everything (pool, writer) is created and destroyed inside
WriteResult write_all(const model::Data& d, const WritePlan& p, int pool_threads, int bad_utf8_at = -1, bool thread_start_fails = false) {
    WriteResult r;
    const std::string path = OUT_PREFIX + p.suffix;
    simfs::remove_file(path);
    {
        osmium::thread::Pool pool{pool_threads, 0};
        const int base_threads = sim::live_threads();
        {
            std::unique_ptr<osmium::io::Writer> writer;
            if (thread_start_fails) { sim::set_thread_create_fail_at(0); }   // the Writer's write thread is the next thread created
            bool alive = wguard(r, "ctor", [&] {
                osmium::io::File file{path, p.options.empty() ? std::string{} : p.suffix + "," + p.options};
                writer = std::make_unique<osmium::io::Writer>(file, model::build_header(d), pool, osmium::io::overwrite::allow, p.fsync ? osmium::io::fsync::yes : osmium::io::fsync::no);
            });
            if (thread_start_fails) {
                r.thread_start_failures = sim::thread_create_failures();
                sim::set_thread_create_fail_at(-1);
            }
            if (alive && p.buffer_size) { writer->set_buffer_size(p.buffer_size); }
            int obj_index = 0;
            for (size_t si = 0; alive && si < p.steps.size(); ++si) {
                const auto& st = p.steps[si];
                if (st.set_size) {
                    writer->set_buffer_size(st.set_size);
                    sim::probe("set_buffer_size() called between writes");
                }
                size_t i = st.from;
                while (alive && i < st.to) {
                    size_t next = i;
                    osmium::memory::Buffer buffer = model::build_buffer(d.objs, i, st.to, &next);
                    if (bad_utf8_at >= 0 && bad_utf8_at >= static_cast<int>(i) && bad_utf8_at < static_cast<int>(next)) {
                        // an object the encoder cannot encode: invalid UTF-8 in a tag value
                        osmium::builder::NodeBuilder b{buffer};
                        b.set_id(424242);
                        b.set_location(osmium::Location{1, 1});
                        b.set_user("");
                        {
                            osmium::builder::TagListBuilder tl{b};
                            tl.add_tag("bad", "\xff\xfe\xc0");
                        }
                    }
                    if (bad_utf8_at >= 0) { buffer.commit(); }
                    if (st.how == 0) {
                        alive = wguard(r, "operator()", [&] { (*writer)(std::move(buffer)); });
                    } else {
                        for (const auto& item : buffer) {
                            if (!alive) { break; }
                            alive = wguard(r, "operator()", [&] { (*writer)(item); });
                        }
                    }
                    obj_index += static_cast<int>(next - i);
                    i = next;
                }
                if (alive && st.flush_after) { alive = wguard(r, "flush", [&] { writer->flush(); }); }
            }
            if (writer) {
                if (alive) {
                    alive = wguard(r, "close", [&] {
                        r.close_value = writer->close();
                        r.closed_ok = true;
                    });
                    if (r.closed_ok) { r.dirty_after_close = simfs::is_dirty(path); }
                }
                if (!alive) {
                    // a Writer in error state refuses further data
                    try {
                        osmium::memory::Buffer b = model::build_buffer(d.objs, 0, 1);
                        (*writer)(std::move(b));
                        r.refuses_after_error = false;
                    } catch (const std::exception&) {
                    } catch (...) {
                        r.nonstd = true;
                    }
                }
            }
        }
        r.threads_left = sim::live_threads() - base_threads;
    }
    r.fds_left = simfs::open_fd_count();
    if (r.fds_left) { simfs::force_close_all(); }
    if (simfs::get_file(path, &r.bytes)) { r.size_on_disk = r.bytes.size(); }
    return r;
}

void config_writer_queues() {
    static const char* qs[] = {"", "1", "2", "3", "5", "20"};
    sim::clear_env();
    const char* a = qs[choose(S_CONF, 6)];
    const char* b = qs[choose(S_CONF, 6)];
    if (*a) { sim::set_env("OSMIUM_MAX_OUTPUT_QUEUE_SIZE", a); }
    if (*b) { sim::set_env("OSMIUM_MAX_WORK_QUEUE_SIZE", b); }
}

Input as_input(const WritePlan& p, const std::string& bytes) {
    Input in;
    in.suffix = p.suffix;
    in.bytes = bytes;
    in.name = "written file";
    return in;
}

std::string plan_json(const model::Data& d, const WritePlan& p) {
    std::ostringstream s;
    s << "\"objects\":" << d.objs.size() << ",\"file\":\"" << p.suffix << "\",\"options\":\"" << p.options << "\",\"fsync\":" << (p.fsync ? "true" : "false") << ",\"steps\":" << p.steps.size()
      << ",\"buffer_size\":" << p.buffer_size;
    return s.str();
}

// ------------------------------------------------------------------------------------------------
// C08

void c08_check_against_model(const model::Data& d, const WritePlan& p, const std::string& bytes, const std::string& kind);   // writer_roundtrip.inc

void run_c08() {
    simfs::reset();
    sim::clear_values();
    sim::set_value("parser_buffer_size", 65536);
    sim::set_value("input_buffer_size", 65536);
    const int fmt = static_cast<int>(choose(S_WORK, 4));
    const model::Data d = model::gen_data(profile_for_write(false, fmt));
    const WritePlan p = gen_plan(d, false, fmt);
    const std::string path = OUT_PREFIX + p.suffix;
    const std::string kind = format_of(p.suffix) + (comp_of(p.suffix) == "none" ? "" : "." + comp_of(p.suffix));

    // ---- reference write: same script, no faults, non-preemptive
    WriteResult ref;
    {
        sim::RunConfig cfg;
        cfg.preemptive = false;
        sim::clear_env();
        sim::begin_run(cfg);
        {
            sim::QuietScope quiet;
            ref = write_all(d, p, 1);
        }
        sim::end_run();
    }
    if (ref.threw) {
        // the library rejects this data even without any fault: not a C08 case (nothing to compare with)
        sim::probe("reference write rejected the data");
        sim::set_sample("{" + plan_json(d, p) + ",\"note\":\"reference write threw " + ref.exc_type + "\"}");
        return;
    }

    // ---- fault plan
    enum FK { F_NONE = 0, F_WRITE_ERR, F_FSYNC_ERR, F_CLOSE_ERR, F_ENCODER, F_COMPRESSOR, F_THREAD };
    int fk = static_cast<int>(choose(S_FAULT, 6));
    if (choose(S_FAULT, 15) == 0) { fk = F_THREAD; }
    if (fk == F_FSYNC_ERR && !p.fsync) { fk = F_WRITE_ERR; }
    if (fk == F_ENCODER && p.format != 2) { fk = F_WRITE_ERR; }              // only the OPL encoder validates UTF-8
    // a compressor exists if the file is gzip/bzip2 compressed or if it is PBF with zlib or lz4 blobs
    if (fk == F_COMPRESSOR && !(p.compression != 0 || (p.format == 3 && p.options.find("pbf_compression=none") == std::string::npos))) { fk = F_WRITE_ERR; }
    std::string fault_desc = "none";
    simfs::Fault fault;
    fault.path = path;
    int bad_utf8_at = -1;
    if (fk == F_WRITE_ERR) {
        static const int errs[] = {ENOSPC, EFBIG, EIO};
        fault.kind = simfs::Fault::WRITE_ERR_AT;
        fault.n = ref.bytes.empty() ? 0 : choose(S_FAULT, static_cast<uint32_t>(ref.bytes.size()));
        if (choose(S_FAULT, 4) == 0 && !ref.bytes.empty()) { fault.n = ref.bytes.size() - 1 - choose(S_FAULT, static_cast<uint32_t>(std::min<size_t>(ref.bytes.size(), 16))); } // the last bytes
        fault.err = errs[choose(S_FAULT, 3)];
        fault.partial = choose(S_FAULT, 2) != 0;
        fault.sticky = choose(S_FAULT, 3) != 0;   // one time in three the error is transient: only this write fails
        fault_desc = std::string{fault.sticky ? "" : "(transient) "} + "write reaching offset " + std::to_string(fault.n) + " of " + std::to_string(ref.bytes.size()) + " fails (errno " + std::to_string(fault.err) + (fault.partial ? ", after a partial write)" : ")");
    } else if (fk == F_FSYNC_ERR) {
        fault.kind = simfs::Fault::FSYNC_ERR;
        fault.err = EIO;
        fault_desc = "fsync fails";
    } else if (fk == F_CLOSE_ERR) {
        fault.kind = simfs::Fault::CLOSE_ERR_NTH;
        fault.n = p.compression == 1 ? choose(S_FAULT, 2) : 0;   // gzip: the dup'ed fd and the original
        fault.err = choose(S_FAULT, 2) ? EIO : ENOSPC;
        fault_desc = "close #" + std::to_string(fault.n) + " fails";
    } else if (fk == F_ENCODER) {
        bad_utf8_at = d.objs.empty() ? 0 : static_cast<int>(choose(S_FAULT, static_cast<uint32_t>(d.objs.size())));
        fault_desc = "object with invalid UTF-8 near #" + std::to_string(bad_utf8_at);
        // does encoding this object fail at all? (an encoder that escapes the bytes instead does not fail, and then
        // there is nothing to report) - decided by a quiet reference write with the same object
        sim::RunConfig qcfg;
        qcfg.preemptive = false;
        sim::begin_run(qcfg);
        bool encoder_fails = false;
        {
            sim::QuietScope quiet;
            const WriteResult probe = write_all(d, p, 1, bad_utf8_at);
            encoder_fails = probe.threw;
        }
        sim::end_run();
        if (!encoder_fails) {
            sim::probe("encoder accepts the invalid UTF-8 object (no encoder fault to inject)");
            fk = F_NONE;
            bad_utf8_at = -1;
            fault_desc = "none";
        }
    } else if (fk == F_COMPRESSOR) {
        fault_desc = "compressor (deflate/BZ2_bzCompress/LZ4_compress_fast) fails on call #";
    } else if (fk == F_THREAD) {
        fault_desc = "starting the Writer's write thread fails (pthread_create EAGAIN)";
    }

    // ---- run under test
    config_writer_queues();
    const int pool_threads = 1 + static_cast<int>(choose(S_CONF, 8));
    simfs::Soft soft;
    soft.short_write_one_in = choose(sim::S_IO, 3) == 0 ? 0 : 3;
    if (p.compression == 0 && choose(sim::S_IO, 2)) { soft.eintr_one_in = 5; } // EINTR is only transparent on the plain write path
    sim::RunConfig cfg;
    sim::begin_run(cfg);
    simfs::set_soft(soft);
    if (fk == F_WRITE_ERR || fk == F_FSYNC_ERR || fk == F_CLOSE_ERR) { simfs::add_fault(fault); }
    unsigned compress_fail_call = 0;
    if (fk == F_COMPRESSOR) {
        compress_fail_call = choose(S_FAULT, 12);
        sim::set_compress_fail_at(static_cast<int>(compress_fail_call));
        fault_desc += std::to_string(compress_fail_call);
    }
    if (fk == F_THREAD) { sim::set_signature_tag("/writer-thread-start-failure"); }
    const WriteResult run = write_all(d, p, pool_threads, bad_utf8_at, fk == F_THREAD);
    uint64_t fired = 0;
    for (const auto& f : simfs::faults()) { fired += f.fired; }
    if (fk == F_THREAD && run.thread_start_failures > 0) {
        fired += run.thread_start_failures;
        sim::probe("the Writer's write thread could not be started");
    }
    if (fk == F_COMPRESSOR && sim::compress_failures() > 0) {
        fired += sim::compress_failures();
        sim::fault_fired("compressor call failed", sim::compress_failures());
    }
    if (fk == F_ENCODER) { fired = 1; sim::fault_fired("unencodable string"); }
    sim::set_compress_fail_at(-1);
    sim::end_run();
    sim::clear_env();
    simfs::set_soft(simfs::Soft{});

    sim::set_sample("{" + plan_json(d, p) + ",\"reference_bytes\":" + std::to_string(ref.bytes.size()) + ",\"fault\":\"" + fault_desc + "\",\"fault_fired\":" + std::to_string(fired) + ",\"pool\":" + std::to_string(pool_threads) +
                    ",\"outcome\":\"" + (run.threw ? "exception from " + run.where + ": " + exc_class_name(run.exc_type) : "close() returned " + std::to_string(run.close_value)) + "\"}");

    // 4. threads always finish
    if (run.threads_left != 0) { sim::report("oracle", "C08.leak/thread/" + kind, std::to_string(run.threads_left) + " threads left after the Writer was destroyed"); }
    if (run.fds_left != 0) { sim::probe("fd left open after the Writer was destroyed (not a C08 violation)"); }
    if (run.nonstd) { sim::report("oracle", "C08.exception/" + kind + "/non-std-exception", "an exception not derived from std::exception reached the caller"); }
    // 3. a Writer in error state refuses further data
    if (!run.refuses_after_error) { sim::report("oracle", "C08.after-error/" + kind + "/accepts-data", "operator() after an exception from " + run.where + " did not throw"); }
    // 2. a hard fault that was returned to the library => an exception
    if (fired > 0 && !run.threw) {
        static const char* fnames[] = {"none", "write-error", "fsync-error", "close-error", "encoder-error", "compressor-error", "thread-start-error"};
        sim::report("oracle", std::string{"C08.lost-error/"} + kind + "/" + fnames[fk] + (fk == F_WRITE_ERR && fault.partial ? "-after-partial-write" : ""),
                    fault_desc + " was returned to the library but no call threw; close() returned " + std::to_string(run.close_value) + ", file has " + std::to_string(run.size_on_disk) + " bytes (complete file: " + std::to_string(ref.bytes.size()) + ")");
    }
    // 1./5. success => complete file, right size, durable
    if (!run.threw) {
        if (fired == 0) { sim::probe("fault-free or soft-only run succeeded"); }
        if (run.close_value != run.size_on_disk) {
            sim::report("oracle", "C08.size/" + kind, "close() returned " + std::to_string(run.close_value) + " but the file has " + std::to_string(run.size_on_disk) + " bytes");
        }
        if (p.fsync && run.dirty_after_close) {
            sim::report("oracle", "C08.durable/" + kind, "fsync requested but the file has unsynced data after close() returned");
        }
        // "exactly the objects handed to the Writer": against the data model, not only against the reference write (a defect
        // that does not depend on faults or schedules truncates both files alike)
        if (fk != F_ENCODER) { c08_check_against_model(d, p, run.bytes, kind); }
        if (fired == 0 && run.bytes != ref.bytes) {
            // compare the decoded contents
            const Input a = as_input(p, ref.bytes);
            const Input b = as_input(p, run.bytes);
            put_input(a);
            const Outcome oa = reference_read(a, false);
            put_input(b);
            const Outcome ob = reference_read(b, false);
            if (ob.threw || oa.objs.size() != ob.objs.size() || !prefix_consistent(oa.objs, ob.objs) || oa.header != ob.header) {
                sim::report("oracle", "C08.complete/" + kind + "/file-differs-from-reference",
                            "no call threw, but the file (" + std::to_string(run.bytes.size()) + " bytes) does not decode to what the reference write (" + std::to_string(ref.bytes.size()) + " bytes) decodes to: " +
                                (ob.threw ? "reading it throws " + ob.exc_what : first_diff(oa.objs, ob.objs)));
            } else {
                sim::probe("bytes differ from the reference but the contents are equal");
            }
        }
    } else {
        sim::probe("exception reached the caller");
        if (fired == 0 && fk != F_ENCODER) {
            // soft perturbations only (short writes, EINTR on the plain path) must be invisible
            sim::report("oracle", "C08.soft/" + kind + "/" + exc_class_name(run.exc_type), "no hard fault fired but " + run.where + " threw " + run.exc_type + ": " + run.exc_what);
        }
    }
    if (fired) { sim::probe("hard fault fired"); }
}


// ------------------------------------------------------------------------------------------------
// C08, exhaustive part: for one small workload the first write reaching byte offset o fails, for EVERY o of the
// would-be output (one errno / partial / transient variant per run), plus fsync and every close. Each point runs
// the full Writer under a perturbed schedule.

void run_c08_enum() {
    simfs::reset();
    sim::clear_values();
    const int fmt = static_cast<int>(choose(S_WORK, 4));
    model::Profile pr = profile_for_write(false, fmt);
    pr.max_objects = 6;
    pr.max_tags = 2;
    pr.max_refs = 4;
    pr.nasty_strings = choose(S_WORK, 3) == 0;
    const model::Data d = model::gen_data(pr);
    const WritePlan p = gen_plan(d, false, fmt);
    const std::string path = OUT_PREFIX + p.suffix;
    const std::string kind = format_of(p.suffix) + (comp_of(p.suffix) == "none" ? "" : "." + comp_of(p.suffix));
    WriteResult ref;
    {
        sim::RunConfig cfg;
        cfg.preemptive = false;
        sim::clear_env();
        sim::begin_run(cfg);
        {
            sim::QuietScope quiet;
            ref = write_all(d, p, 1);
        }
        sim::end_run();
    }
    if (ref.threw || ref.bytes.size() > 6000) {
        sim::probe(ref.threw ? "reference write rejected the data" : "workload too large for the enumeration");
        sim::set_sample("{" + plan_json(d, p) + ",\"note\":\"skipped\"}");
        return;
    }
    static const int errs[] = {ENOSPC, EFBIG, EIO};
    const int err = errs[choose(S_FAULT, 3)];
    const bool partial = choose(S_FAULT, 2) != 0;
    const bool sticky = choose(S_FAULT, 3) != 0;
    config_writer_queues();
    const int pool_threads = 1 + static_cast<int>(choose(S_CONF, 4));
    simfs::Soft soft;
    soft.short_write_one_in = choose(sim::S_IO, 2) ? 4 : 0;
    uint64_t points = 0, fired_points = 0;
    auto one_point = [&](const simfs::Fault& fault, const std::string& what) {
        sim::RunConfig cfg;
        sim::begin_run(cfg);
        simfs::set_soft(soft);
        simfs::add_fault(fault);
        const WriteResult run = write_all(d, p, pool_threads);
        uint64_t fired = 0;
        for (const auto& f : simfs::faults()) { fired += f.fired; }
        sim::end_run();
        simfs::reset();
        ++points;
        if (fired) { ++fired_points; }
        if (run.threads_left != 0) { sim::report("oracle", "C08.leak/thread/" + kind, "threads left after the Writer was destroyed (" + what + ")"); }
        if (run.nonstd) { sim::report("oracle", "C08.exception/" + kind + "/non-std-exception", what); }
        if (!run.refuses_after_error) { sim::report("oracle", "C08.after-error/" + kind + "/accepts-data", what); }
        if (fired > 0 && !run.threw) {
            sim::report("oracle", "C08.lost-error/" + kind + "/" + (fault.kind == simfs::Fault::WRITE_ERR_AT ? (partial ? "write-error-after-partial-write" : "write-error") : (fault.kind == simfs::Fault::FSYNC_ERR ? "fsync-error" : "close-error")),
                        what + " was returned to the library but no call threw; close() returned " + std::to_string(run.close_value) + ", file has " + std::to_string(run.size_on_disk) + " of " + std::to_string(ref.bytes.size()) + " bytes");
        }
        if (!run.threw) {
            if (run.close_value != run.size_on_disk) { sim::report("oracle", "C08.size/" + kind, "close() returned " + std::to_string(run.close_value) + ", file has " + std::to_string(run.size_on_disk) + " (" + what + ")"); }
            if (fired == 0 && run.bytes != ref.bytes) { sim::report("oracle", "C08.complete/" + kind + "/file-differs-from-reference", "no fault fired (" + what + ") but the file differs from the reference write"); }
        } else if (fired == 0) {
            sim::report("oracle", "C08.soft/" + kind + "/" + exc_class_name(run.exc_type), "no hard fault fired (" + what + ") but " + run.where + " threw " + run.exc_what);
        }
    };
    for (size_t o = 0; o < ref.bytes.size(); ++o) {
        simfs::Fault f;
        f.kind = simfs::Fault::WRITE_ERR_AT;
        f.path = path;
        f.n = o;
        f.err = err;
        f.partial = partial;
        f.sticky = sticky;
        one_point(f, "write reaching offset " + std::to_string(o) + " of " + std::to_string(ref.bytes.size()) + " fails, errno " + std::to_string(err));
    }
    if (p.fsync) {
        simfs::Fault f;
        f.kind = simfs::Fault::FSYNC_ERR;
        f.path = path;
        f.err = EIO;
        one_point(f, "fsync fails");
    }
    for (uint64_t n = 0; n < 2; ++n) {
        simfs::Fault f;
        f.kind = simfs::Fault::CLOSE_ERR_NTH;
        f.path = path;
        f.n = n;
        f.err = EIO;
        one_point(f, "close #" + std::to_string(n) + " fails");
    }
    sim::clear_env();
    sim::probe("enumerated fault points", points);
    sim::probe("hard fault fired", fired_points);
    sim::set_sample("{" + plan_json(d, p) + ",\"reference_bytes\":" + std::to_string(ref.bytes.size()) + ",\"fault_points\":" + std::to_string(points) + ",\"errno\":" + std::to_string(err) + ",\"partial\":" + (partial ? "true" : "false") + ",\"transient\":" + (sticky ? "false" : "true") + ",\"pool\":" + std::to_string(pool_threads) + "}");
    sim::set_field("exhaustive_subspace", "\"mode c08enum: for each small workload (<= 6000 output bytes) every byte offset of the would-be output as the failing write position, plus fsync and each close, one errno/partial/transient variant and one perturbed schedule per point\"");
    sim::set_nontrivial(true);
}

} // namespace

#include "writer_roundtrip.inc"

int main(int argc, char** argv) {
    return sim::worker_main(argc, argv, [](const sim::RunInfo& info) {
        if (info.mode == "c08") { run_c08(); }
        else if (info.mode == "c08enum") { run_c08_enum(); }
        else if (info.mode == "c01") { run_c01(); }
        else { sim::report("harness-error", "harness/unknown-mode", info.mode); }
    });
}
