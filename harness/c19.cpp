// C19 — osmium::thread::Queue is FIFO and loss-free, Pool runs every task exactly once.
// Real Queue/Pool code, real threads, simulated scheduling (see DESIGN.md section 5, C19).
//
// modes: queue  — P producers x C consumers x bound B, conservation / order / bound / wake-up oracles
//        lin    — small histories checked for linearizability against a sequential FIFO queue
//        pool   — submitters x tasks x pool size, exactly-once / result / join oracles

#include "sim.hpp"
#include "lincheck.hpp"

#include <osmium/thread/pool.hpp>
#include <osmium/thread/queue.hpp>

#include <atomic>
#include <chrono>
#include <memory>
#include <set>
#include <sstream>
#include <stdexcept>
#include <system_error>
#include <thread>
#include <vector>

using sim::choose;
using sim::S_CONF;
using sim::S_WORK;

namespace {

constexpr uint32_t NONE = 0xffffffffU;

struct Ev {
    uint64_t stamp;
    int thread;     // harness role id
    int op;         // 0 push, 1 wait_and_pop, 2 try_pop
    bool is_ret;
    uint32_t value; // pushed value / popped value / NONE
};

uint64_t g_stamp = 0;
std::vector<Ev> g_events;

void ev(int thread, int op, bool is_ret, uint32_t value) {
    g_events.push_back(Ev{++g_stamp, thread, op, is_ret, value});
    if (is_ret && value != NONE) { sim::progress(); } // an element went into or out of the queue
}

void sim_sleep_us(int64_t us) {
    std::this_thread::sleep_for(std::chrono::microseconds(us));
}

uint32_t biased_small(sim::Stream s, uint32_t max) {
    // 0..max-1, small values more likely, value 0 simplest
    uint32_t a = choose(s, max);
    uint32_t b = choose(s, max);
    return a < b ? a : b;
}

std::string join_ints(const std::vector<int>& v) {
    std::ostringstream o;
    for (size_t i = 0; i < v.size(); ++i) { if (i) { o << ","; } o << v[i]; }
    return o.str();
}

// ------------------------------------------------------------------------------------------------

struct QueueScenario {
    int producers = 1;
    int consumers = 1;
    size_t bound = 0;
    std::vector<int> per_producer;     // number of elements
    std::vector<int> consumer_style;   // 0 wait_and_pop, 1 try_pop polling, 2 mixed
    int scenario = 0;                  // 0 drain then shutdown, 1 early shutdown, 2 consumers start late
    int early_after = 0;
    bool lin = false;
};

QueueScenario gen_queue_scenario(bool lin) {
    QueueScenario sc;
    sc.lin = lin;
    static const size_t bounds[] = {0, 1, 2, 3, 5, 20};
    if (lin) {
        sc.producers = 1 + static_cast<int>(choose(S_CONF, 3));
        sc.consumers = 1 + static_cast<int>(choose(S_CONF, 3));
        sc.bound = bounds[choose(S_CONF, 4)];
        int total = 0;
        for (int p = 0; p < sc.producers; ++p) {
            int n = 1 + static_cast<int>(choose(S_WORK, 4));
            if (total + n > 8) { n = 8 - total; }
            if (n < 0) { n = 0; }
            sc.per_producer.push_back(n);
            total += n;
        }
        for (int c = 0; c < sc.consumers; ++c) { sc.consumer_style.push_back(static_cast<int>(choose(S_CONF, 3))); }
        sc.scenario = 0;
        return sc;
    }
    sc.producers = 1 + static_cast<int>(biased_small(S_CONF, 8));
    sc.consumers = 1 + static_cast<int>(biased_small(S_CONF, 8));
    sc.bound = bounds[choose(S_CONF, 6)];
    int total = 0;
    for (int p = 0; p < sc.producers; ++p) {
        int n = 1 + static_cast<int>(biased_small(S_WORK, 60));
        if (total + n > 200) { n = 200 - total; }
        if (n < 0) { n = 0; }
        sc.per_producer.push_back(n);
        total += n;
    }
    for (int c = 0; c < sc.consumers; ++c) { sc.consumer_style.push_back(static_cast<int>(choose(S_CONF, 3))); }
    sc.scenario = static_cast<int>(choose(S_CONF, 3));
    sc.early_after = static_cast<int>(choose(S_CONF, 40));
    return sc;
}

void run_queue(bool lin_mode) {
    const QueueScenario sc = gen_queue_scenario(lin_mode);
    g_events.clear();
    g_stamp = 0;

    int total = 0;
    for (int n : sc.per_producer) { total += n; }

    std::ostringstream sample;
    sample << "{\"kind\":\"" << (lin_mode ? "lin" : "queue") << "\",\"producers\":" << sc.producers << ",\"consumers\":" << sc.consumers
           << ",\"bound\":" << sc.bound << ",\"per_producer\":[" << join_ints(sc.per_producer) << "],\"consumer_style\":["
           << join_ints(sc.consumer_style) << "],\"scenario\":" << sc.scenario << "}";
    sim::set_sample(sample.str());

    sim::RunConfig cfg;
    sim::begin_run(cfg);
    {
        osmium::thread::Queue<uint32_t> q{sc.bound, "c19"};
        std::atomic<int> consumed{0};
        std::atomic<bool> stop{false};
        std::atomic<int> producers_done{0};
        std::vector<std::vector<uint32_t>> received(static_cast<size_t>(sc.consumers));
        size_t max_size_seen = 0;

        auto producer = [&](int p) {
            sim::name_thread("producer");
            for (int s = 0; s < sc.per_producer[static_cast<size_t>(p)]; ++s) {
                const uint32_t v = (static_cast<uint32_t>(p) << 16) | static_cast<uint32_t>(s);
                ev(p, 0, false, v);
                q.push(v);
                ev(p, 0, true, v);
            }
            ++producers_done;
        };
        auto consumer = [&](int c) {
            sim::name_thread("consumer");
            const int style = sc.consumer_style[static_cast<size_t>(c)];
            int n = 0;
            for (;;) {
                const bool use_try = style == 1 || (style == 2 && (n++ % 2) == 1);
                uint32_t v = NONE;
                if (use_try) {
                    ev(100 + c, 2, false, NONE);
                    const bool ok = q.try_pop(v);
                    ev(100 + c, 2, true, ok ? v : NONE);
                    if (ok != (v != NONE)) {
                        sim::report("oracle", "C19.trypop/return-value-mismatch", "try_pop return value and output disagree");
                    }
                    if (!ok) {
                        if (stop.load()) { break; }
                        sim_sleep_us(100);
                        continue;
                    }
                } else {
                    ev(100 + c, 1, false, NONE);
                    q.wait_and_pop(v);
                    ev(100 + c, 1, true, v);
                    if (v == NONE) {
                        // returned without a value: only legal after shutdown()
                        if (q.in_use()) {
                            sim::report("oracle", "C19.waitpop/returned-empty-while-in-use", "wait_and_pop returned without a value although the queue is in use");
                        }
                        break;
                    }
                }
                received[static_cast<size_t>(c)].push_back(v);
                ++consumed;
            }
        };

        std::vector<std::thread> prod_threads;
        std::vector<std::thread> cons_threads;
        auto start_consumers = [&] {
            for (int c = 0; c < sc.consumers; ++c) { cons_threads.emplace_back(consumer, c); }
        };
        if (sc.scenario != 2) { start_consumers(); }
        for (int p = 0; p < sc.producers; ++p) { prod_threads.emplace_back(producer, p); }

        auto observe_size = [&] {
            const size_t s = q.size();
            if (s > max_size_seen) { max_size_seen = s; }
            if (sc.bound > 0 && s > sc.bound + static_cast<size_t>(sc.producers) - 1) {
                sim::report("oracle", "C19.bound/size-exceeds-bound", "queue size " + std::to_string(s) + " with bound " + std::to_string(sc.bound) + " and " + std::to_string(sc.producers) + " producers");
            }
            if (sc.bound > 0 && s >= sc.bound) { sim::probe("queue observed full"); }
        };

        bool drained = true;
        uint64_t shutdown_stamp = UINT64_MAX;
        if (sc.scenario == 2) {
            // consumers start late: let the producers fill the queue and block
            for (int k = 0; k < 5 + sc.early_after; ++k) {
                observe_size();
                sim_sleep_us(2000);
            }
            observe_size();
            start_consumers();
        }
        if (sc.scenario == 1) {
            // early shutdown while producers/consumers are active
            for (int k = 0; k < sc.early_after; ++k) {
                observe_size();
                sim_sleep_us(300);
            }
            drained = false;
            shutdown_stamp = g_stamp;
            sim::probe("shutdown while queue in use");
        } else {
            const uint64_t start_steps = sim::steps();
            for (;;) {
                observe_size();
                if (producers_done.load() == sc.producers && consumed.load() == total) { break; }
                if (sim::steps() - start_steps > 400000) {
                    sim::report("oracle", "C19.conservation/element-lost-or-consumer-stuck",
                                "after 400000 steps: consumed " + std::to_string(consumed.load()) + " of " + std::to_string(total) + ", producers done " + std::to_string(producers_done.load()));
                    drained = false;
                    break;
                }
                sim_sleep_us(1000);
            }
        }
        q.shutdown();
        stop.store(true);
        // Every consumer (blocked on the empty queue or polling) must return now. Producers that raced with
        // shutdown() may still insert elements; the property promises nothing to a producer that finds a
        // shut-down bounded queue full with no consumer left (it would poll forever), so the main thread
        // keeps draining until the producers are done.
        std::vector<uint32_t> drained_after_shutdown;
        {
            const uint64_t start_steps = sim::steps();
            while (producers_done.load() != sc.producers) {
                uint32_t v = NONE;
                while (q.try_pop(v)) { drained_after_shutdown.push_back(v); }
                if (sim::steps() - start_steps > 400000) {
                    sim::report("oracle", "C19.progress/producer-stuck-although-queue-drained", "a producer did not finish within 400000 steps although the queue was kept empty");
                    break;
                }
                sim_sleep_us(500);
            }
        }
        for (auto& t : prod_threads) { t.join(); }
        for (auto& t : cons_threads) { t.join(); }
        {
            uint32_t v = NONE;
            while (q.try_pop(v)) { drained_after_shutdown.push_back(v); }
        }
        received.push_back(drained_after_shutdown);

        // ---- oracles over the received sequences
        std::set<uint32_t> seen;
        int got = 0;
        for (int c = 0; c < static_cast<int>(received.size()); ++c) {
            std::vector<int> last(static_cast<size_t>(sc.producers), -1);
            for (uint32_t v : received[static_cast<size_t>(c)]) {
                ++got;
                const int p = static_cast<int>(v >> 16);
                const int s = static_cast<int>(v & 0xffff);
                if (p >= sc.producers || s >= sc.per_producer[static_cast<size_t>(p)]) {
                    sim::report("oracle", "C19.conservation/unknown-element", "popped a value that was never pushed: " + std::to_string(v));
                    continue;
                }
                if (!seen.insert(v).second) {
                    sim::report("oracle", "C19.conservation/duplicate", "element popped twice: producer " + std::to_string(p) + " seq " + std::to_string(s));
                }
                if (s <= last[static_cast<size_t>(p)]) {
                    sim::report("oracle", "C19.order/per-producer-order", "consumer " + std::to_string(c) + " saw producer " + std::to_string(p) + " seq " + std::to_string(s) + " after " + std::to_string(last[static_cast<size_t>(p)]));
                }
                last[static_cast<size_t>(p)] = s;
            }
        }
        if (drained && got != total) {
            sim::report("oracle", "C19.conservation/lost", "popped " + std::to_string(got) + " of " + std::to_string(total) + " elements although consumers drained the queue before shutdown");
        }
        // single producer: the strict bound must hold at every instant of the history
        if (sc.bound > 0) {
            long returned_pushes = 0, invoked_pops = 0;
            for (const Ev& e : g_events) {
                if (e.stamp > shutdown_stamp) { break; } // push() is a no-op once shutdown() has been called
                if (e.op == 0 && e.is_ret) { ++returned_pushes; }
                if (e.op != 0 && !e.is_ret) { ++invoked_pops; }
                if (returned_pushes - invoked_pops > static_cast<long>(sc.bound) + sc.producers - 1) {
                    sim::report("oracle", "C19.bound/history-exceeds-bound", "pushes returned - pops invoked = " + std::to_string(returned_pushes - invoked_pops) + " > bound " + std::to_string(sc.bound) + " + producers - 1");
                    break;
                }
            }
        }
        // ---- linearizability (small histories, drained scenario)
        if (lin_mode && drained) {
            std::vector<lin::Op> ops;
            std::vector<std::pair<int, size_t>> open; // (thread, index into ops)
            for (const Ev& e : g_events) {
                if (!e.is_ret) {
                    lin::Op op{e.op == 0 ? lin::PUSH : lin::POP, e.value, e.stamp, UINT64_MAX, e.thread};
                    ops.push_back(op);
                    open.emplace_back(e.thread, ops.size() - 1);
                } else {
                    for (size_t k = open.size(); k-- > 0;) {
                        if (open[k].first == e.thread) {
                            lin::Op& op = ops[open[k].second];
                            op.ret = e.stamp;
                            if (e.op != 0) {
                                if (e.value == NONE) { op.kind = lin::POP_EMPTY; } else { op.value = e.value; }
                            }
                            if (e.op == 1 && e.value == NONE) { op.ret = 0; } // wait_and_pop released by shutdown: drop below
                            open.erase(open.begin() + static_cast<long>(k));
                            break;
                        }
                    }
                }
            }
            std::vector<lin::Op> complete;
            for (const auto& op : ops) {
                if (op.ret == 0) { continue; }
                // try_pop calls that saw "empty" after shutdown() began are not part of the in-use phase;
                // they can only be the final polls (stop flag) and are consistent with an empty queue anyway
                complete.push_back(op);
            }
            if (complete.size() > 40) { sim::probe("linearizability check skipped: more than 40 operations in the history"); }
            if (complete.size() <= 40) {
                lin::Checker chk{complete};
                const bool ok = chk.check();
                sim::probe("linearizability histories checked");
                if (chk.exhausted()) { sim::probe("linearizability search budget exhausted"); }
                if (!ok) {
                    std::ostringstream d;
                    d << "history not linearizable w.r.t. a FIFO queue:";
                    for (const auto& op : complete) {
                        d << " [t" << op.thread << (op.kind == lin::PUSH ? " push " : (op.kind == lin::POP ? " pop " : " pop-empty ")) << op.value << " " << op.invoke << "-" << op.ret << "]";
                    }
                    sim::report("oracle", "C19.linearizability/fifo", d.str());
                }
            }
        }
        if (max_size_seen > 0) { sim::probe("queue non-empty at an observation"); }
    }
    if (sim::live_threads() != 1) {
        sim::report("oracle", "C19.join/thread-left", "threads alive after joining all producers and consumers");
    }
    sim::end_run();
}

// ------------------------------------------------------------------------------------------------

struct TaskSpec {
    int kind;   // 0 value, 1 throws, 2 long value, 3 long throws
    int id;
};

struct TaskError : public std::runtime_error {
    explicit TaskError(const std::string& w) : std::runtime_error(w) {}
};

std::mutex g_shared_mutex;

void run_pool() {
    static const int sizes[] = {1, 2, 3, 4, 8, 16, 32};
    const int nthreads = sizes[biased_small(S_CONF, 7)];
    static const size_t qbounds[] = {0, 1, 2, 3, 10};
    const size_t qbound = qbounds[choose(S_CONF, 5)];
    const int env_q = static_cast<int>(choose(S_CONF, 4)); // 0: unset, else value 1..3 (1 is raised to 2 by the library)
    const int submitters = 1 + static_cast<int>(biased_small(S_CONF, 4));
    const int collect_mode = static_cast<int>(choose(S_CONF, 3)); // 0 get while pool alive, 1 get after pool destroyed, 2 never get (futures dropped after pool destroyed)
    std::vector<std::vector<TaskSpec>> plan(static_cast<size_t>(submitters));
    int total = 0;
    for (int s = 0; s < submitters; ++s) {
        int n = static_cast<int>(biased_small(S_WORK, 30));
        if (total + n > 60) { n = 60 - total; }
        for (int k = 0; k < n; ++k) {
            plan[static_cast<size_t>(s)].push_back(TaskSpec{static_cast<int>(choose(S_WORK, 4)), total++});
        }
    }
    std::ostringstream sample;
    sample << "{\"kind\":\"pool\",\"threads\":" << nthreads << ",\"queue_bound\":" << qbound << ",\"env_work_queue\":" << env_q
           << ",\"submitters\":" << submitters << ",\"tasks\":" << total << ",\"collect_mode\":" << collect_mode << "}";
    sim::set_sample(sample.str());

    sim::clear_env();
    if (env_q) { sim::set_env("OSMIUM_MAX_WORK_QUEUE_SIZE", std::to_string(env_q)); }

    // fault: starting the k-th worker thread fails (EAGAIN). The constructor must report it and leave nothing behind.
    const bool start_fails = choose(sim::S_FAULT, 8) == 0;
    const int fail_index = start_fails ? static_cast<int>(choose(sim::S_FAULT, static_cast<uint32_t>(nthreads))) : -1;

    sim::RunConfig cfg;
    sim::begin_run(cfg);
    if (start_fails) {
        sim::set_thread_create_fail_at(fail_index);
        bool threw = false;
        try {
            osmium::thread::Pool failing{nthreads, qbound};
        } catch (const std::system_error&) {
            threw = true;
        } catch (const std::exception& e) {
            threw = true;
            sim::probe("pool start failure reported with another exception type");
        }
        sim::set_thread_create_fail_at(-1);
        sim::probe("worker thread could not be started");
        if (!threw) {
            sim::report("oracle", "C19.pool/start-failure-not-reported", "pthread_create failed for worker " + std::to_string(fail_index) + " of " + std::to_string(nthreads) + " but the Pool constructor returned normally");
        }
        if (sim::live_threads() != 1) {
            sim::report("oracle", "C19.pool/worker-not-joined", std::to_string(sim::live_threads() - 1) + " threads alive after the Pool constructor failed (worker " + std::to_string(fail_index) + " could not be started)");
        }
    }
    {
        std::vector<int> executed(static_cast<size_t>(total), 0);
        std::vector<int> running_now(1, 0);
        int max_parallel = 0;
        using fut_t = std::future<int>;
        std::vector<std::vector<fut_t>> futures(static_cast<size_t>(submitters));
        auto pool = std::make_unique<osmium::thread::Pool>(nthreads, qbound);
        if (pool->num_threads() != nthreads) {
            sim::report("oracle", "C19.pool/num-threads", "pool reports " + std::to_string(pool->num_threads()) + " threads, asked for " + std::to_string(nthreads));
        }
        if (sim::live_threads() != 1 + nthreads) {
            sim::report("oracle", "C19.pool/worker-count", "expected " + std::to_string(nthreads) + " worker threads, simulated thread table has " + std::to_string(sim::live_threads() - 1));
        }

        auto make_task = [&](TaskSpec t) {
            return [t, &executed, &running_now, &max_parallel]() -> int {
                ++executed[static_cast<size_t>(t.id)];
                sim::progress();
                ++running_now[0];
                if (running_now[0] > max_parallel) { max_parallel = running_now[0]; }
                if (t.kind >= 2) {
                    for (int k = 0; k < 3; ++k) {
                        std::lock_guard<std::mutex> lock{g_shared_mutex};
                        sim::sched_point("long task");
                    }
                }
                --running_now[0];
                if (t.kind == 1 || t.kind == 3) { throw TaskError{"task " + std::to_string(t.id)}; }
                return t.id * 7 + 1;
            };
        };
        auto check_future = [&](fut_t& f, const TaskSpec& t) {
            try {
                const int v = f.get();
                if (t.kind == 1 || t.kind == 3) {
                    sim::report("oracle", "C19.pool/exception-lost", "task " + std::to_string(t.id) + " threw but its future returned a value");
                } else if (v != t.id * 7 + 1) {
                    sim::report("oracle", "C19.pool/wrong-result", "future of task " + std::to_string(t.id) + " returned " + std::to_string(v));
                }
            } catch (const TaskError& e) {
                if (!(t.kind == 1 || t.kind == 3) || std::string{e.what()} != "task " + std::to_string(t.id)) {
                    sim::report("oracle", "C19.pool/wrong-exception", "future of task " + std::to_string(t.id) + " rethrew '" + e.what() + "'");
                }
            } catch (const std::exception& e) {
                sim::report("oracle", "C19.pool/foreign-exception", "future of task " + std::to_string(t.id) + " threw " + e.what());
            }
        };
        auto submitter = [&](int s) {
            if (s != 0) { sim::name_thread("submitter"); }
            auto& mine = futures[static_cast<size_t>(s)];
            for (const TaskSpec& t : plan[static_cast<size_t>(s)]) { mine.push_back(pool->submit(make_task(t))); }
            if (collect_mode == 0) {
                for (size_t k = 0; k < mine.size(); ++k) { check_future(mine[k], plan[static_cast<size_t>(s)][k]); }
            }
        };
        std::vector<std::thread> threads;
        for (int s = 1; s < submitters; ++s) { threads.emplace_back(submitter, s); }
        submitter(0);
        for (auto& t : threads) { t.join(); }
        // destroying the pool joins all workers without losing queued tasks
        pool.reset();
        if (sim::live_threads() != 1) {
            sim::report("oracle", "C19.pool/worker-not-joined", std::to_string(sim::live_threads() - 1) + " threads alive after ~Pool returned");
        }
        for (int id = 0; id < total; ++id) {
            if (executed[static_cast<size_t>(id)] != 1) {
                sim::report("oracle", executed[static_cast<size_t>(id)] == 0 ? "C19.pool/task-not-run" : "C19.pool/task-run-twice",
                            "task " + std::to_string(id) + " executed " + std::to_string(executed[static_cast<size_t>(id)]) + " times (pool destroyed after submit)");
            }
        }
        if (collect_mode == 1) {
            for (int s = 0; s < submitters; ++s) {
                for (size_t k = 0; k < futures[static_cast<size_t>(s)].size(); ++k) { check_future(futures[static_cast<size_t>(s)][k], plan[static_cast<size_t>(s)][k]); }
            }
        }
        if (max_parallel >= 2) { sim::probe("two or more tasks running simultaneously"); }
        if (collect_mode != 0) { sim::probe("pool destroyed with futures outstanding"); }
    }
    sim::end_run();
    sim::clear_env();
}

} // namespace

int main(int argc, char** argv) {
    return sim::worker_main(argc, argv, [](const sim::RunInfo& info) {
        if (info.mode == "queue") { run_queue(false); }
        else if (info.mode == "lin") { run_queue(true); }
        else if (info.mode == "pool") { run_pool(); }
        else { sim::report("harness-error", "harness/unknown-mode", info.mode); }
    });
}
