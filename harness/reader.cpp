// Reader pipeline harness: C06 (chunking), C05 (order/exactly-once), C07 (termination, first error),
// C03 (damaged stored input). Real osmium::io::Reader with all its threads, real zlib/libbz2/expat,
// simulated scheduler, clock and file layer. See DESIGN.md section 5.

#include "sim.hpp"
#include "simfs.hpp"
#include "model.hpp"
#include "o5m_encode.hpp"
#include "pbf_encode.hpp"

#include <osmium/io/any_input.hpp>
#include <osmium/io/any_output.hpp>
#include <osmium/io/input_iterator.hpp>
#include <osmium/thread/pool.hpp>

#include <algorithm>
#include <chrono>
#include <cstdio>
#include <cxxabi.h>
#include <fstream>
#include <memory>
#include <sstream>
#include <string>
#include <thread>
#include <typeinfo>
#include <vector>

using sim::choose;
using sim::S_CONF;
using sim::S_FAULT;
using sim::S_WORK;

#include "pipeline_common.inc"

namespace {

// ------------------------------------------------------------------------------------------------
// C06: parse result independent of chunking

void apply_chunking(const Input& in, bool from_buffer, bool shipped, std::string& desc) {
    simfs::Soft soft;
    static const size_t fixed[] = {1, 2, 3, 5, 7, 11, 13, 17, 100, 1000, 4096, 65536};
    const uint32_t policy = choose(sim::S_IO, 4);
    if (!from_buffer) {
        // Most runs use hook H4 (input_buffer_size) so that a read() does not allocate and clear 1 MiB each time;
        // one run in four keeps the shipped 1 MiB request size and relies on short reads alone.
        const bool shipped_size = shipped;
        if (policy == 0) {
            soft.chunk_mode = 1;
            soft.chunk = fixed[choose(sim::S_IO, 12)];
            if (shipped_size) {
                while (in.bytes.size() / soft.chunk > 30) { soft.chunk = soft.chunk * 2 + 1; }
            } else {
                sim::set_value("input_buffer_size", soft.chunk < 64 ? 64 : soft.chunk);
            }
            desc += std::string{shipped_size ? "(1 MiB requests) " : ""} + "fd reads of " + std::to_string(soft.chunk) + " bytes";
        } else if (policy == 1 && !shipped_size) {
            soft.chunk_mode = 2;
            desc += "fd reads of random length";
        } else if (policy == 2) {
            const uint32_t ncuts = 1 + choose(sim::S_IO, 2);
            for (uint32_t i = 0; i < ncuts && in.bytes.size() > 1; ++i) {
                // bias to the last bytes of the file
                size_t c = 1 + choose(sim::S_IO, static_cast<uint32_t>(in.bytes.size() - 1));
                if (choose(sim::S_IO, 3) == 0 && in.bytes.size() > 12) { c = in.bytes.size() - 1 - choose(sim::S_IO, 11); }
                soft.cuts.push_back(c);
            }
            std::sort(soft.cuts.begin(), soft.cuts.end());
            desc += "fd reads cut at";
            for (size_t c : soft.cuts) { desc += " " + std::to_string(c); }
        } else if (!shipped_size) {
            soft.chunk_mode = 2;
            soft.eintr_one_in = is_compressed(in.suffix) ? 0 : 6; // EINTR is only transparent for the plain read path
            desc += "fd reads of random length" + std::string{soft.eintr_one_in ? " with EINTR" : ""};
        }
    }
    if (is_compressed(in.suffix)) {
        static const size_t clamps[] = {0, 1, 3, 17, 100, 1000, 4096, 65536};
        size_t c = clamps[choose(sim::S_IO, 8)];
        // every piece costs a buffer allocation in the library (1 MiB shipped / hook value for fd, 10240 bytes for
        // memory input): keep the number of pieces per run bounded
        if (c && shipped) { c = 65536; }
        if (c && c < 17 && in.bytes.size() > 600) { c = 17; }
        sim::set_decomp_clamp(c);
        if (c) { desc += std::string{desc.empty() ? "" : ", "} + "decompressor output clamped to " + std::to_string(c); }
    }
    simfs::set_soft(soft);
}

// strict_exception: the exception type and message must be equal too (C06: "the error it reports depends only on
// the bytes"; its quantifier covers valid and truncated files). Not strict (C07, corrupted files): a corrupt
// compressed file may be rejected by the decompressor or - when garbage pieces reach the parser first - by the
// parser; the property only demands that the failure is reported.
void compare_outcomes(const char* prop, const char* oracle, const Input& in, bool from_buffer, const Outcome& ref, const Outcome& run, bool strict_exception = true, const std::string& zlib_label = std::string{}, const std::string& kind_override = std::string{}) {
    const std::string kind = kind_override.empty() ? io_kind(in, from_buffer) : kind_override;
    const std::string pre = std::string{prop} + "." + oracle + "/" + kind + "/";
    // only where the reference outcome is a gzip error does zlib's silence matter
    const std::string zl = (ref.threw && ref.exc_type.find("gzip_error") != std::string::npos) ? zlib_label : std::string{};
    if (run.nonstd_exception) {
        sim::report("oracle", pre + "non-std-exception", "an exception not derived from std::exception reached the caller");
        return;
    }
    if (ref.threw != run.threw) {
        if (run.threw) {
            sim::report("oracle", pre + "ref-ok-run-throws-" + exc_class(run), "reference run succeeded (" + std::to_string(ref.objs.size()) + " objects) but this run threw " + run.exc_type + " from " + run.where + ": " + run.exc_what);
        } else {
            sim::report("oracle", pre + "ref-throws-" + exc_class(ref) + "-run-ok" + zl, "reference run threw " + ref.exc_type + " (" + ref.exc_what + ") from " + ref.where + " but this run succeeded with " + std::to_string(run.objs.size()) + " objects");
        }
        return;
    }
    if (ref.threw) {
        if (!strict_exception) { return; }
        if (ref.exc_type != run.exc_type || ref.exc_what != run.exc_what) {
            sim::report("oracle", pre + "exception-differs-" + exc_class(ref) + "-vs-" + exc_class(run) + zl, "reference: " + ref.exc_type + " '" + ref.exc_what + "' run: " + run.exc_type + " '" + run.exc_what + "'");
            return;
        }
        if (!prefix_consistent(ref.objs, run.objs)) {
            sim::report("oracle", pre + "objects-before-error-differ", first_diff(ref.objs, run.objs));
        }
        if (ref.header_ok && run.header_ok && ref.header != run.header) {
            sim::report("oracle", pre + "header-differs", "reference " + ref.header + " run " + run.header);
        }
        return;
    }
    if (ref.header != run.header) {
        sim::report("oracle", pre + "header-differs", "reference " + ref.header + " run " + run.header);
        return;
    }
    if (ref.objs.size() != run.objs.size() || !prefix_consistent(ref.objs, run.objs)) {
        sim::report("oracle", pre + "objects-differ", first_diff(ref.objs, run.objs));
    }
}

void run_c06() {
    simfs::reset();
    sim::clear_values();
    Input in = pick_input(40, -1, 3);
    bool from_buffer = false;
    // memory inputs are delivered in one piece unless they are compressed (10 KiB pieces)
    if (is_compressed(in.suffix) && choose(S_WORK, 2)) { from_buffer = true; }
    if (in.buffer_only) { from_buffer = true; }
    // every truncation of a valid file is an input too
    std::string extra;
    if (choose(S_WORK, 3) == 0 && in.bytes.size() > 1) {
        const size_t len = choose(S_WORK, static_cast<uint32_t>(in.bytes.size()));
        in.bytes.resize(len);
        extra += ",\"truncated_to\":" + std::to_string(len);
    }
    put_input(in);
    const bool shipped = choose(S_CONF, 16) == 15;
    default_values(shipped);
    const Outcome ref = reference_read(in, from_buffer);

    std::string desc;
    ReaderOpts ro;
    ro.from_buffer = from_buffer;
    ro.pool_threads = 1 + static_cast<int>(choose(S_CONF, 3));
    sim::RunConfig cfg;
    sim::begin_run(cfg);
    apply_chunking(in, from_buffer, shipped, desc);
    const Outcome run = read_all(in, ro);
    const std::string zl = (ref.threw && ref.exc_type.find("gzip_error") != std::string::npos) ? zlib_label_for(in, from_buffer) : std::string{};
    simfs::force_close_all();
    sim::end_run();
    sim::set_decomp_clamp(0);
    sim::clear_values();
    simfs::set_soft(simfs::Soft{});
    sim::set_sample(sample_json(in, extra + ",\"from_buffer\":" + (from_buffer ? "true" : "false") + ",\"chunking\":\"" + desc + "\",\"reference\":\"" + (ref.threw ? "throws " + exc_class(ref) : std::to_string(ref.objs.size()) + " objects") + "\""));
    compare_outcomes("C06", "chunking", in, from_buffer, ref, run, true, zl);
    if (ref.threw) { sim::probe("reference outcome is an exception"); }
    if (ref.objs.size() > 0 && !ref.threw) { sim::probe("reference outcome is data"); }
}


// C06, exhaustive part: for one small input every single cut position of the stored bytes (the first read returns
// [0,c), the next the rest), every pair (c, c+1..c+3) near each c, and every fixed piece size 1..48 for the stream
// handed to the parser; each point is compared with the one-piece reference outcome.
void run_c06_enum() {
    simfs::reset();
    sim::clear_values();
    Input in = pick_input(3, -1, 2);
    if (in.bytes.size() > 900 || in.buffer_only) {
        std::vector<const Input*> small;
        for (const auto& f : g_fixtures) {
            if (f.bytes.size() <= 900) { small.push_back(&f); }
        }
        if (!small.empty()) { in = *small[choose(S_WORK, static_cast<uint32_t>(small.size()))]; }
    }
    // truncated variants are inputs too
    std::string extra;
    if (choose(S_WORK, 3) == 0 && in.bytes.size() > 1) {
        in.bytes.resize(choose(S_WORK, static_cast<uint32_t>(in.bytes.size())));
        extra = ",\"truncated_to\":" + std::to_string(in.bytes.size());
    }
    put_input(in);
    default_values(false);
    const Outcome ref = reference_read(in, false);
    ReaderOpts ro;
    ro.pool_threads = 1 + static_cast<int>(choose(S_CONF, 2));
    uint64_t points = 0;
    auto one_point = [&](const simfs::Soft& soft, unsigned long piece, const std::string& what) {
        sim::set_value("input_buffer_size", piece);
        sim::RunConfig cfg;
        sim::begin_run(cfg);
        simfs::set_soft(soft);
        const Outcome run = read_all(in, ro);
        const std::string zl = (ref.threw && ref.exc_type.find("gzip_error") != std::string::npos) ? zlib_label_for(in, false) : std::string{};
        simfs::force_close_all();
        sim::end_run();
        simfs::set_soft(simfs::Soft{});
        ++points;
        if (!sim::replaying() || true) {
            const size_t before = 0;
            (void)before;
        }
        compare_outcomes("C06", "chunking", in, false, ref, run, true, zl);
        (void)what;
    };
    const size_t n = in.bytes.size();
    for (size_t c = 1; c < n; ++c) {
        simfs::Soft soft;
        soft.cuts = {c};
        one_point(soft, 65536, "cut at " + std::to_string(c));
        for (size_t d = 1; d <= 3 && c + d < n; ++d) {
            simfs::Soft s2;
            s2.cuts = {c, c + d};
            one_point(s2, 65536, "cuts at " + std::to_string(c) + "," + std::to_string(c + d));
        }
    }
    for (unsigned long piece = 1; piece <= 48; ++piece) {
        // the request size bounds both the fd reads and (for gz/bz2) the decompressed pieces handed to the parser
        simfs::Soft soft;
        one_point(soft, piece, "pieces of " + std::to_string(piece));
    }
    sim::clear_values();
    sim::probe("enumerated cut points", points);
    sim::set_sample(sample_json(in, extra + ",\"cut_points\":" + std::to_string(points) + ",\"reference\":\"" + (ref.threw ? "throws " + exc_class(ref) : std::to_string(ref.objs.size()) + " objects") + "\""));
    sim::set_field("exhaustive_subspace", "\"mode c06enum: for each small input (<= 900 bytes, fd) every single cut position, every pair (c, c+1..c+3) and every fixed piece size 1..48\"");
    sim::set_nontrivial(true);
}

// ------------------------------------------------------------------------------------------------
// C05: each selected object exactly once, in file order

void run_c05() {
    simfs::reset();
    Input in = pick_input(400, static_cast<int>(choose(S_WORK, 2)), 12);
    const bool from_buffer = choose(S_WORK, 4) == 0 || in.buffer_only;
    put_input(in);
    sim::clear_values();
    const Outcome ref = reference_read(in, from_buffer);

    ReaderOpts ro;
    ro.from_buffer = from_buffer;
    ro.pool_threads = pick_pool_threads();
    static const osmium::osm_entity_bits::type masks[] = {
        osmium::osm_entity_bits::all, osmium::osm_entity_bits::node, osmium::osm_entity_bits::way, osmium::osm_entity_bits::relation,
        osmium::osm_entity_bits::nwr, osmium::osm_entity_bits::node | osmium::osm_entity_bits::way, osmium::osm_entity_bits::node | osmium::osm_entity_bits::relation,
        osmium::osm_entity_bits::way | osmium::osm_entity_bits::relation, osmium::osm_entity_bits::changeset, osmium::osm_entity_bits::nothing,
        osmium::osm_entity_bits::node | osmium::osm_entity_bits::changeset, osmium::osm_entity_bits::way | osmium::osm_entity_bits::changeset,
        osmium::osm_entity_bits::relation | osmium::osm_entity_bits::changeset, osmium::osm_entity_bits::nwr | osmium::osm_entity_bits::changeset,
        osmium::osm_entity_bits::node | osmium::osm_entity_bits::way | osmium::osm_entity_bits::changeset, osmium::osm_entity_bits::way | osmium::osm_entity_bits::relation | osmium::osm_entity_bits::changeset};
    const uint32_t mi = choose(S_CONF, 3) == 0 ? choose(S_CONF, 16) : 0;
    ro.entities = masks[mi];
    ro.meta = choose(S_CONF, 4) == 0 ? osmium::io::read_meta::no : osmium::io::read_meta::yes;
    ro.buffers = choose(S_CONF, 3) == 0 ? osmium::io::buffers_type::single : osmium::io::buffers_type::any;
    ro.use_iterator = choose(S_CONF, 5) == 0;
    config_queues();
    config_buffers();
    sim::RunConfig cfg;
    sim::begin_run(cfg);
    const Outcome run = read_all(in, ro);
    sim::end_run();
    sim::clear_env();
    sim::clear_values();

    std::ostringstream extra;
    extra << ",\"from_buffer\":" << (from_buffer ? "true" : "false") << ",\"pool\":" << ro.pool_threads << ",\"mask\":" << static_cast<int>(ro.entities)
          << ",\"read_meta\":" << (ro.meta == osmium::io::read_meta::yes ? "true" : "false") << ",\"single\":" << (ro.buffers == osmium::io::buffers_type::single ? "true" : "false")
          << ",\"iterator\":" << (ro.use_iterator ? "true" : "false") << ",\"reference_objects\":" << ref.objs.size() << ",\"buffers\":" << run.buffer_masks.size();
    sim::set_sample(sample_json(in, extra.str()));

    const std::string kind = io_kind(in, from_buffer);
    // thread/descriptor leaks are C07's subject: counted here, reported there
    if (run.threads_left != 0 || run.fds_left != 0) { sim::probe("thread or descriptor left after the Reader was destroyed (C07 matter)"); }
    if (run.nonstd_exception) {
        sim::report("oracle", "C05.result/" + kind + "/non-std-exception", "non-std exception");
        return;
    }
    if (ref.threw) {
        // input the library rejects even in the reference run: nothing to compare (fixtures are valid; generated o5m might not be)
        sim::probe("reference run rejected the input");
        // only comparable when the run decodes what the reference decodes (a file with an invalid metadata section
        // is legitimately accepted with read_meta::no)
        if (!run.threw && ro.entities == osmium::osm_entity_bits::all && ro.meta == osmium::io::read_meta::yes) {
            sim::report("oracle", "C05.result/" + kind + "/ref-throws-run-ok", "reference threw " + ref.exc_what + " but the run succeeded");
        }
        return;
    }
    if (run.threw) {
        sim::report("oracle", "C05.result/" + kind + "/run-throws-" + exc_class(run), "reference succeeded but the run threw " + run.exc_type + " from " + run.where + ": " + run.exc_what);
        return;
    }
    if (ref.header != run.header) {
        sim::report("oracle", "C05.header/" + kind, "reference " + ref.header + " run " + run.header);
    }
    // expected: the reference sequence filtered by the entity mask
    std::vector<model::Rec> expected;
    for (const auto& r : ref.objs) {
        osmium::osm_entity_bits::type bit = osmium::osm_entity_bits::nothing;
        switch (r.type) {
            case 'n': bit = osmium::osm_entity_bits::node; break;
            case 'w': bit = osmium::osm_entity_bits::way; break;
            case 'r': bit = osmium::osm_entity_bits::relation; break;
            case 'c': bit = osmium::osm_entity_bits::changeset; break;
            default: break;
        }
        if (ro.entities & bit) { expected.push_back(r); }
    }
    const bool meta_relaxed = ro.meta == osmium::io::read_meta::no;
    if (expected.size() != run.objs.size()) {
        sim::report("oracle", "C05.sequence/" + kind + "/count", "expected " + std::to_string(expected.size()) + " objects (mask " + std::to_string(static_cast<int>(ro.entities)) + "), run delivered " + std::to_string(run.objs.size()) + "; " + first_diff(expected, run.objs));
    } else {
        for (size_t i = 0; i < expected.size(); ++i) {
            const model::Rec& e = expected[i];
            const model::Rec& g = run.objs[i];
            bool same = e.type == g.type && e.id == g.id && e.content == g.content;
            if (same) {
                if (!meta_relaxed || e.type == 'c') {
                    same = (e == g);
                } else {
                    // each metadata field is either identical or the type's default
                    same = (g.version == e.version || g.version == 0) && (g.changeset == e.changeset || g.changeset == 0) && (g.ts == e.ts || g.ts == 0) &&
                           (g.uid == e.uid || g.uid == 0) && (g.user == e.user || g.user.empty()) && (g.visible == e.visible || g.visible);
                }
            }
            if (!same) {
                sim::report("oracle", "C05.sequence/" + kind + (meta_relaxed ? "/read_meta-no" : "") + "/object-differs", "object #" + std::to_string(i) + ": expected {" + e.str().substr(0, 300) + "} got {" + g.str().substr(0, 300) + "}");
                break;
            }
        }
    }
    if (!run.read_after_eof_throws) {
        sim::report("oracle", "C05.eof/" + kind + "/read-after-end-does-not-fail", "read() after the end-of-data marker did not fail with an exception (it returned a buffer)");
    }
    if (!run.eof_flag_ok) { sim::probe("eof() false after end of data or after close() (documented behaviour, not part of C05)"); }
    if (ro.buffers == osmium::io::buffers_type::single && !ro.use_iterator) {
        for (unsigned m : run.buffer_masks) {
            if (__builtin_popcount(m) > 1) {
                // Documented behaviour of buffers_type::single (reader.hpp), but not part of the property's statement,
                // so it is counted, not reported: the PBF parser ignores buffers_type for blocks that hold groups of
                // several types (valid PBF that libosmium's own writer never produces).
                sim::probe((std::string{"buffers_type::single delivered a buffer with several item types ("} + format_of(in.suffix) + ")").c_str());
                break;
            }
        }
    }
    if (run.buffer_masks.size() >= 3) { sim::probe("three or more buffers delivered"); }
    if (ro.pool_threads >= 2 && is_pbf(in.suffix)) { sim::probe("PBF decoded with >= 2 pool threads"); }
}


// C05 under load: the consumer is a Writer that shares the Reader's thread pool (the usual "convert" program), with
// small queue bounds on both sides, so that pool workers decode and encode at the same time and the Reader's queues
// fill because the consumer blocks. What the consumer saw must equal the reference decode.
void run_c05_convert() {
    simfs::reset();
    Input in = pick_input(400, static_cast<int>(choose(S_WORK, 2)), 12, false);
    const bool from_buffer = choose(S_WORK, 4) == 0 || in.buffer_only;
    put_input(in);
    sim::clear_values();
    const Outcome ref = reference_read(in, from_buffer);
    if (ref.threw) {
        sim::probe("reference run rejected the input");
        sim::set_sample(sample_json(in, ",\"note\":\"reference rejected\""));
        return;
    }
    config_queues();
    config_buffers();
    static const char* qs[] = {"2", "3", "20"};
    sim::set_env("OSMIUM_MAX_OUTPUT_QUEUE_SIZE", qs[choose(S_CONF, 3)]);
    const int pool_threads = pick_pool_threads();
    static const char* outs[] = {"opl", "osm", "pbf", "opl.gz", "osm.bz2"};
    const std::string out_suffix = outs[choose(S_CONF, 5)];
    Outcome run;
    bool writer_threw = false;
    std::string writer_what;
    sim::RunConfig cfg;
    sim::begin_run(cfg);
    {
        osmium::thread::Pool pool{pool_threads, 0};
        const int base_threads = sim::live_threads();
        {
            try {
                std::unique_ptr<osmium::io::Reader> reader;
                if (from_buffer) {
                    reader = std::make_unique<osmium::io::Reader>(osmium::io::File{in.bytes.data(), in.bytes.size(), in.suffix}, pool);
                } else {
                    reader = std::make_unique<osmium::io::Reader>(osmium::io::File{INPUT_PATH_PREFIX + in.suffix}, pool);
                }
                osmium::io::Writer writer{osmium::io::File{"/sim/convert." + out_suffix}, reader->header(), pool, osmium::io::overwrite::allow};
                guarded(run, "read", [&] {
                    while (osmium::memory::Buffer buffer = reader->read()) {
                        run.buffer_masks.push_back(model::digest_recs(buffer, run.objs));
                        try {
                            writer(std::move(buffer));
                        } catch (const std::exception& e) {
                            writer_threw = true;
                            writer_what = e.what();
                            break;
                        }
                    }
                });
                try {
                    writer.close();
                } catch (const std::exception& e) {
                    writer_threw = true;
                    writer_what = e.what();
                }
                guarded(run, "close", [&] { reader->close(); });
            } catch (const std::exception& e) {
                run.threw = true;
                run.where = "ctor";
                run.exc_what = e.what();
            }
        }
        run.threads_left = sim::live_threads() - base_threads;
    }
    run.fds_left = simfs::open_fd_count();
    if (run.fds_left) {
        run.fd_desc = simfs::describe_open_fds();
        simfs::force_close_all();
    }
    sim::end_run();
    sim::clear_env();
    sim::clear_values();
    sim::set_sample(sample_json(in, ",\"from_buffer\":" + std::string{from_buffer ? "true" : "false"} + ",\"pool\":" + std::to_string(pool_threads) + ",\"output\":\"" + out_suffix + "\",\"objects\":" + std::to_string(run.objs.size())));
    const std::string kind = io_kind(in, from_buffer);
    if (run.threads_left != 0 || run.fds_left != 0) { sim::probe("thread or descriptor left after the Reader was destroyed (C07 matter)"); }
    if (writer_threw) {
        // e.g. PBF output rejects what the input format allowed: not a Reader matter
        sim::probe("the consuming Writer rejected the data");
        return;
    }
    if (run.threw) {
        sim::report("oracle", "C05.result/" + kind + "/convert/run-throws-" + exc_class(run), "reference succeeded but the Reader threw while feeding a Writer on the same pool: " + run.exc_what);
        return;
    }
    if (ref.objs.size() != run.objs.size() || !prefix_consistent(ref.objs, run.objs)) {
        sim::report("oracle", "C05.sequence/" + kind + "/convert", "Reader feeding a Writer on the same pool: " + first_diff(ref.objs, run.objs));
    }
    sim::probe("Reader and Writer shared one pool");
}


// C05 with several Readers on one pool: two or three consumer threads, each with its own Reader (own input, own
// options), share one thread pool with a small work queue, as programs do that read several files at once through
// Pool::default_instance(). Every consumer must see exactly its own file's reference sequence.
void run_c05_multi() {
    simfs::reset();
    const uint32_t nreaders = 2 + choose(S_CONF, 2);
    std::vector<Input> inputs;
    std::vector<Outcome> refs;
    std::vector<ReaderOpts> opts;
    sim::clear_values();
    for (uint32_t i = 0; i < nreaders; ++i) {
        Input in = pick_input(200, static_cast<int>(choose(S_WORK, 2)), 12, false);
        in.suffix = "r" + std::to_string(i) + "." + in.suffix; // distinct simulated file names
        ReaderOpts ro;
        ro.from_buffer = choose(S_WORK, 4) == 0 || in.buffer_only;
        put_input(in);
        inputs.push_back(in);
        opts.push_back(ro);
    }
    for (uint32_t i = 0; i < nreaders; ++i) { refs.push_back(reference_read(inputs[i], opts[i].from_buffer)); }
    config_queues();
    config_buffers();
    const int pool_threads = pick_pool_threads();
    std::vector<Outcome> runs(nreaders);
    int threads_left = 0;
    sim::RunConfig cfg;
    sim::begin_run(cfg);
    {
        osmium::thread::Pool pool{pool_threads, 0};
        const int base_threads = sim::live_threads();
        {
            std::vector<std::thread> consumers;
            for (uint32_t i = 1; i < nreaders; ++i) {
                consumers.emplace_back([&, i] {
                    sim::name_thread("consumer");
                    runs[i] = read_all(inputs[i], opts[i], &pool);
                });
            }
            runs[0] = read_all(inputs[0], opts[0], &pool);
            for (auto& t : consumers) { t.join(); }
        }
        threads_left = sim::live_threads() - base_threads;
    }
    const size_t fds_left = simfs::open_fd_count();
    const std::string fd_desc = fds_left ? simfs::describe_open_fds() : std::string{};
    if (fds_left) { simfs::force_close_all(); }
    sim::end_run();
    sim::clear_env();
    sim::clear_values();
    std::string extra = ",\"readers\":" + std::to_string(nreaders) + ",\"pool\":" + std::to_string(pool_threads) + ",\"inputs\":\"";
    for (const auto& in : inputs) { extra += in.suffix + " "; }
    extra += "\"";
    sim::set_sample(sample_json(inputs[0], extra));
    if (threads_left != 0 || fds_left != 0) { sim::probe("thread or descriptor left after the Readers were destroyed (C07 matter)"); }
    (void)fd_desc;
    for (uint32_t i = 0; i < nreaders; ++i) {
        const std::string kind = io_kind(inputs[i], opts[i].from_buffer) + "/multi";
        if (refs[i].threw) {
            if (!runs[i].threw) { sim::report("oracle", "C05.result/" + kind + "/ref-throws-run-ok", "reference threw " + refs[i].exc_what + " but the run on the shared pool succeeded"); }
            continue;
        }
        if (runs[i].threw) {
            sim::report("oracle", "C05.result/" + kind + "/run-throws-" + exc_class(runs[i]), "reader " + std::to_string(i) + " of " + std::to_string(nreaders) + " on a shared pool threw " + runs[i].exc_what);
            continue;
        }
        if (refs[i].header != runs[i].header) { sim::report("oracle", "C05.header/" + kind, "reference " + refs[i].header + " run " + runs[i].header); }
        if (refs[i].objs.size() != runs[i].objs.size() || !prefix_consistent(refs[i].objs, runs[i].objs)) {
            sim::report("oracle", "C05.sequence/" + kind, "reader " + std::to_string(i) + " of " + std::to_string(nreaders) + " on a shared pool: " + first_diff(refs[i].objs, runs[i].objs));
        }
    }
    sim::probe("several Readers shared one pool");
}

} // namespace

// further modes (C07, C03) live in reader_faults.inc to keep this file readable
#include "reader_faults.inc"

int main(int argc, char** argv) {
    load_fixtures();
    return sim::worker_main(argc, argv, [](const sim::RunInfo& info) {
        if (info.mode == "c06") { run_c06(); }
        else if (info.mode == "c06enum") { run_c06_enum(); }
        else if (info.mode == "c05") { run_c05(); }
        else if (info.mode == "c05convert") { run_c05_convert(); }
        else if (info.mode == "c05multi") { run_c05_multi(); }
        else if (info.mode == "c07") { run_c07(); }
        else if (info.mode == "c07url") { run_c07(true); }
        else if (info.mode == "c07enum") { run_c07_enum(); }
        else if (info.mode == "c03") { run_c03(); }
        else { sim::report("harness-error", "harness/unknown-mode", info.mode); }
    });
}
