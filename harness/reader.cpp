// Reader pipeline harness: C06 (chunking), C05 (order/exactly-once), C07 (termination, first error),
// C03 (damaged stored input). Real osmium::io::Reader with all its threads, real zlib/libbz2/expat,
// simulated scheduler, clock and file layer. See DESIGN.md section 5.

#include "sim.hpp"
#include "simfs.hpp"
#include "model.hpp"
#include "o5m_encode.hpp"

#include <osmium/io/any_input.hpp>
#include <osmium/io/any_output.hpp>
#include <osmium/io/input_iterator.hpp>
#include <osmium/thread/pool.hpp>

#include <algorithm>
#include <chrono>
#include <cstdio>
#include <cxxabi.h>
#include <fstream>
#include <memory>
#include <sstream>
#include <string>
#include <thread>
#include <typeinfo>
#include <vector>

using sim::choose;
using sim::S_CONF;
using sim::S_FAULT;
using sim::S_WORK;

namespace {

// ------------------------------------------------------------------------------------------------
// inputs

struct Input {
    std::string name;      // for the sample rendering
    std::string suffix;    // file name suffix / format string: osm, osm.gz, opl.bz2, pbf, o5m, osh, ...
    std::string bytes;
};

std::vector<Input> g_fixtures;

const char* fixture_list[] = {
    "t/io/data.osm", "t/io/data.osm.gz", "t/io/data.osm.bz2", "t/io/data.opl", "t/io/data-cr.opl", "t/io/data-nonl.opl",
    "t/io/data-n5w1r3.osm", "t/io/data-n5w1r3.osm.o5m", "t/io/data-n5w1r3.osm.opl", "t/io/data-n0w1r3.osm.o5m", "t/io/data-n5w0r3.osm.o5m",
    "t/io/data-n5w1r0.osm.o5m", "t/io/data-n0w1r3.osm.opl", "t/io/data-n5w0r3.osm.opl", "t/io/data-n5w1r0.osm", "t/io/data-n0w1r3.osm",
    "t/io/data_pbf_version-1.osm.pbf", "t/io/data_pbf_version-1-densenodes.osm.pbf", "t/io/deleted_nodes.osh", "t/io/deleted_nodes.osh.pbf",
    "examples/t/debug/changesets.osm", "examples/t/filter_discussions/changesets.osm", "examples/t/road_length/road.osm",
    "t/relations/data.osm", "examples/t/pub_names/pub-way.osm",
};

std::string suffix_of(const std::string& path) {
    const auto slash = path.rfind('/');
    const std::string base = slash == std::string::npos ? path : path.substr(slash + 1);
    const auto dot = base.find('.');
    std::string suf = dot == std::string::npos ? std::string{} : base.substr(dot + 1);
    // "osm.o5m" / "osm.opl" / "osm.pbf" / "osh.pbf": the last components decide
    for (const char* f : {"o5m", "opl", "pbf"}) {
        const std::string tail = std::string{"."} + f;
        if (suf.size() > tail.size() && suf.compare(suf.size() - tail.size(), tail.size(), tail) == 0) {
            const bool hist = suf.compare(0, 3, "osh") == 0;
            suf = (hist ? std::string{"osh."} : std::string{"osm."}) + f;
        }
    }
    return suf;
}

void load_fixtures() {
    const char* repo = getenv("VERIF_REPO");
    const std::string root = std::string{repo ? repo : "/repo"} + "/test/";
    for (const char* rel : fixture_list) {
        std::ifstream in{root + rel, std::ios::binary};
        if (!in) { continue; }
        std::stringstream ss;
        ss << in.rdbuf();
        Input i;
        i.name = rel;
        i.suffix = suffix_of(rel);
        i.bytes = ss.str();
        g_fixtures.push_back(i);
    }
}

bool has_prefix(const std::string& s, const char* p) { return s.compare(0, std::strlen(p), p) == 0; }
bool has_part(const std::string& suffix, const char* part) {
    return (std::string{"."} + suffix + ".").find(std::string{"."} + part + ".") != std::string::npos;
}
bool is_compressed(const std::string& suffix) { return has_part(suffix, "gz") || has_part(suffix, "bz2"); }
bool is_pbf(const std::string& suffix) { return has_part(suffix, "pbf"); }

std::string format_of(const std::string& suffix) {
    for (const char* f : {"pbf", "o5m", "o5c", "opl", "osc", "osh", "osm"}) {
        if (has_part(suffix, f)) {
            const std::string s = f;
            if (s == "osc" || s == "osh" || s == "osm") { return "xml"; }
            if (s == "o5c") { return "o5m"; }
            return s;
        }
    }
    return "?";
}

std::string comp_of(const std::string& suffix) {
    if (has_part(suffix, "gz")) { return "gz"; }
    if (has_part(suffix, "bz2")) { return "bz2"; }
    return "none";
}

std::string demangle(const char* n) {
    int st = 0;
    char* d = abi::__cxa_demangle(n, nullptr, nullptr, &st);
    std::string r = (st == 0 && d) ? d : n;
    free(d);
    return r;
}

// ------------------------------------------------------------------------------------------------
// writing generated data with libosmium's own Writer (reference conditions, quiet)

std::string write_with_libosmium(const model::Data& d, const std::string& suffix, const std::string& format_options) {
    const std::string path = "/sim/gen." + suffix;
    simfs::remove_file(path);
    std::string result;
    sim::RunConfig cfg;
    cfg.preemptive = false;
    sim::begin_run(cfg);
    {
        sim::QuietScope quiet;
        osmium::thread::Pool pool{1, 10};
        osmium::io::File file{path, format_options.empty() ? std::string{} : suffix + "," + format_options};
        osmium::io::Writer writer{file, model::build_header(d), pool, osmium::io::overwrite::allow};
        const size_t step = 40;
        for (size_t i = 0; i < d.objs.size();) {
            size_t next = i;
            writer(model::build_buffer(d.objs, i, i + step, &next));
            i = next;
        }
        writer.close();
    }
    sim::end_run();
    simfs::get_file(path, &result);
    simfs::remove_file(path);
    return result;
}

struct GenChoice {
    int format = 0;        // 0 xml 1 opl 2 pbf 3 o5m
    int compression = 0;   // 0 none 1 gz 2 bz2
    bool history = false;
};

Input generate_input(uint32_t max_objects, int order_bias, bool allow_changesets) {
    static const char* fmt_suffix[] = {"osm", "opl", "pbf", "o5m"};
    GenChoice g;
    g.format = static_cast<int>(choose(S_WORK, 4));
    g.compression = (g.format == 2) ? 0 : static_cast<int>(choose(S_WORK, 3));
    g.history = choose(S_WORK, 4) == 0;
    model::Profile p;
    p.max_objects = max_objects;
    p.history = g.history;
    p.changesets = allow_changesets && (g.format == 0 || g.format == 1) && choose(S_WORK, 3) == 0;
    p.comments = p.changesets && g.format == 0;
    p.order = order_bias >= 0 ? order_bias : static_cast<int>(choose(S_WORK, 3));
    p.way_locations = (g.format == 2 || g.format == 0 || g.format == 1) && choose(S_WORK, 4) == 0;
    p.nasty_strings = choose(S_WORK, 4) != 0;
    if (g.format == 3) { p.big_ids = false; } // o5m is delta coded: keep id differences inside int64
    const model::Data d = model::gen_data(p);
    Input in;
    std::string suffix = fmt_suffix[g.format];
    if (g.history && g.format == 0) { suffix = "osh"; }
    if (g.history && g.format == 1) { suffix = "osh.opl"; }
    if (g.history && g.format == 2) { suffix = "osh.pbf"; }
    if (g.history && g.format == 3) { suffix = "o5c"; }
    if (g.compression == 1) { suffix += ".gz"; }
    if (g.compression == 2) { suffix += ".bz2"; }
    in.suffix = suffix;
    std::string opts;
    if (g.format == 2) {
        static const char* dense[] = {"", "pbf_dense_nodes=false"};
        static const char* comp[] = {"", "pbf_compression=none", "pbf_compression=lz4"};
        opts = dense[choose(S_WORK, 2)];
        const char* c = comp[choose(S_WORK, 3)];
        if (*c) { opts += (opts.empty() ? "" : ","); opts += c; }
        if (p.way_locations) { opts += (opts.empty() ? "" : ","); opts += "locations_on_ways=true"; }
    }
    if ((g.format == 0 || g.format == 1) && p.way_locations) { opts = "locations_on_ways=true"; }
    if (g.format == 3) {
        o5m::Options oo;
        oo.use_string_table = choose(S_WORK, 4) != 0;
        oo.with_info = choose(S_WORK, 4) != 0;
        oo.reset_every = choose(S_WORK, 3) == 0 ? 1 + choose(S_WORK, 20) : 0;
        oo.header_timestamp = choose(S_WORK, 2) != 0;
        oo.change_file = g.history;
        oo.end_marker = choose(S_WORK, 4) != 0;
        std::string raw = o5m::Encoder{oo}.encode(d);
        if (g.compression != 0) {
            // compress through libosmium's compressor by writing an OPL-less raw stream is not possible; use zlib/bz2 via a tiny writer run
            // simpler: keep generated o5m uncompressed
            in.suffix = g.history ? "o5c" : "o5m";
        }
        in.bytes = raw;
        in.name = "generated o5m (" + std::to_string(d.objs.size()) + " objects)";
        return in;
    }
    in.bytes = write_with_libosmium(d, suffix, opts);
    in.name = "generated " + suffix + (opts.empty() ? "" : " [" + opts + "]") + " (" + std::to_string(d.objs.size()) + " objects)";
    return in;
}

Input pick_input(uint32_t max_objects, int order_bias, uint32_t fixture_one_in, bool allow_changesets = true) {
    if (!g_fixtures.empty() && fixture_one_in && choose(S_WORK, fixture_one_in) == fixture_one_in - 1) {
        return g_fixtures[choose(S_WORK, static_cast<uint32_t>(g_fixtures.size()))];
    }
    return generate_input(max_objects, order_bias, allow_changesets);
}

// ------------------------------------------------------------------------------------------------
// reading

struct ReaderOpts {
    osmium::osm_entity_bits::type entities = osmium::osm_entity_bits::all;
    osmium::io::read_meta meta = osmium::io::read_meta::yes;
    osmium::io::buffers_type buffers = osmium::io::buffers_type::any;
    bool use_iterator = false;
    bool from_buffer = false;
    int pool_threads = 1;
    size_t pool_queue = 0;
};

struct Outcome {
    bool threw = false;
    std::string where;        // ctor, header, read, close
    std::string exc_type, exc_what;
    bool header_ok = false;
    std::string header;
    bool multi_version = false;
    std::vector<model::Rec> objs;
    std::vector<unsigned> buffer_masks;
    bool reached_eof = false;
    bool nonstd_exception = false;
    bool read_after_eof_throws = true;
    bool eof_flag_ok = true;
    int threads_left = 0;
    size_t fds_left = 0;
    std::string fd_desc;
};

template <typename F>
bool guarded(Outcome& o, const char* where, F&& f) {
    try {
        f();
        return true;
    } catch (const std::exception& e) {
        if (!o.threw) {
            o.threw = true;
            o.where = where;
            o.exc_type = demangle(typeid(e).name());
            o.exc_what = e.what();
        }
    } catch (...) {
        if (!o.threw) {
            o.threw = true;
            o.where = where;
            o.exc_type = "non-std-exception";
        }
        o.nonstd_exception = true;
    }
    return false;
}

const char* INPUT_PATH_PREFIX = "/sim/input.";

// read the whole input; everything (pool, reader) is created and destroyed inside
Outcome read_all(const Input& in, const ReaderOpts& ro) {
    Outcome o;
    const std::string path = INPUT_PATH_PREFIX + in.suffix;
    {
        osmium::thread::Pool pool{ro.pool_threads, ro.pool_queue};
        const int base_threads = sim::live_threads();
        {
            std::unique_ptr<osmium::io::Reader> reader;
            const bool ok = guarded(o, "ctor", [&] {
                if (ro.from_buffer) {
                    osmium::io::File file{in.bytes.data(), in.bytes.size(), in.suffix};
                    reader = std::make_unique<osmium::io::Reader>(file, pool, ro.entities, ro.meta, ro.buffers);
                } else {
                    osmium::io::File file{path};
                    reader = std::make_unique<osmium::io::Reader>(file, pool, ro.entities, ro.meta, ro.buffers);
                }
            });
            if (ok) {
                bool go = guarded(o, "header", [&] {
                    const osmium::io::Header h = reader->header();
                    o.header = model::render_header(h);
                    o.multi_version = h.has_multiple_object_versions();
                    o.header_ok = true;
                });
                if (go) {
                    if (ro.use_iterator) {
                        go = guarded(o, "read", [&] {
                            osmium::io::InputIterator<osmium::io::Reader, osmium::OSMEntity> it{*reader};
                            const osmium::io::InputIterator<osmium::io::Reader, osmium::OSMEntity> end{};
                            for (; it != end; ++it) { o.objs.push_back(model::make_rec(*it)); }
                            o.reached_eof = true;
                        });
                    } else {
                        go = guarded(o, "read", [&] {
                            while (osmium::memory::Buffer buffer = reader->read()) {
                                o.buffer_masks.push_back(model::digest_recs(buffer, o.objs));
                            }
                            o.reached_eof = true;
                        });
                    }
                }
                if (go) {
                    if (!reader->eof()) { o.eof_flag_ok = false; }
                    // after the end-of-data marker further reads fail rather than produce data
                    try {
                        osmium::memory::Buffer b = reader->read();
                        o.read_after_eof_throws = false;
                    } catch (const osmium::io_error&) {
                    } catch (...) {
                        o.read_after_eof_throws = false;
                    }
                }
                guarded(o, "close", [&] { reader->close(); });
                if (!reader->eof()) { o.eof_flag_ok = false; }
            }
        }
        o.threads_left = sim::live_threads() - base_threads;
    }
    o.fds_left = simfs::open_fd_count();
    if (o.fds_left) {
        o.fd_desc = simfs::describe_open_fds();
        simfs::force_close_all();
    }
    return o;
}

// Buffer-size knobs for runs that do not vary them: the shipped 1 MiB sizes cost a large allocation per
// Reader under ASan; 64 KiB keeps the same code paths (a run in eight keeps the shipped sizes).
void default_values(bool shipped) {
    sim::clear_values();
    if (!shipped) {
        sim::set_value("parser_buffer_size", 65536);
        sim::set_value("input_buffer_size", 65536);
    }
}

Outcome reference_read(const Input& in, bool from_buffer) {
    ReaderOpts ro;
    ro.from_buffer = from_buffer;
    ro.pool_threads = 1;
    sim::clear_env();
    sim::set_env("OSMIUM_USE_POOL_THREADS_FOR_PBF_PARSING", "no");
    sim::RunConfig cfg;
    cfg.preemptive = false;
    sim::begin_run(cfg);
    Outcome o;
    {
        sim::QuietScope quiet;
        o = read_all(in, ro);
    }
    sim::end_run();
    sim::clear_env();
    return o;
}

std::string exc_class(const Outcome& o) {
    // stable part of the exception type for signatures
    std::string t = o.exc_type;
    const auto p = t.rfind("::");
    if (p != std::string::npos) { t = t.substr(p + 2); }
    return t;
}

std::string io_kind(const Input& in, bool from_buffer) {
    return format_of(in.suffix) + (comp_of(in.suffix) == "none" ? "" : "." + comp_of(in.suffix)) + (from_buffer ? "/buffer" : "/fd");
}

// objects of `a` are a prefix of `b` or vice versa
bool prefix_consistent(const std::vector<model::Rec>& a, const std::vector<model::Rec>& b) {
    const size_t n = a.size() < b.size() ? a.size() : b.size();
    for (size_t i = 0; i < n; ++i) {
        if (a[i] != b[i]) { return false; }
    }
    return true;
}

std::string first_diff(const std::vector<model::Rec>& a, const std::vector<model::Rec>& b) {
    const size_t n = a.size() < b.size() ? a.size() : b.size();
    for (size_t i = 0; i < n; ++i) {
        if (a[i] != b[i]) { return "object #" + std::to_string(i) + ": reference {" + a[i].str().substr(0, 300) + "} run {" + b[i].str().substr(0, 300) + "}"; }
    }
    return "reference delivered " + std::to_string(a.size()) + " objects, run delivered " + std::to_string(b.size());
}

void check_leaks(const char* prop, const Outcome& o, const std::string& kind) {
    if (o.threads_left != 0) {
        sim::report("oracle", std::string{prop} + ".leak/thread/" + kind, std::to_string(o.threads_left) + " threads left after the Reader was destroyed");
    }
    if (o.fds_left != 0) {
        sim::report("oracle", std::string{prop} + ".leak/fd/" + kind + (o.threw ? "/after-" + exc_class(o) : "/no-exception"),
                    std::to_string(o.fds_left) + " file descriptor(s) left open after the Reader was destroyed: " + o.fd_desc);
    }
}

std::string sample_json(const Input& in, const std::string& extra) {
    std::ostringstream s;
    s << "{\"input\":\"" << in.name << "\",\"suffix\":\"" << in.suffix << "\",\"bytes\":" << in.bytes.size() << extra << "}";
    return s.str();
}

void put_input(const Input& in) {
    simfs::put_file(INPUT_PATH_PREFIX + in.suffix, in.bytes);
    uint64_t h = 1469598103934665603ULL;
    for (unsigned char c : in.bytes) { h = (h ^ c) * 1099511628211ULL; }
    sim::add_to_signature(h); // distinctness: the input bytes are part of the case
}

void config_buffers() {
    // small parser buffers so that nested and multiple buffers occur with kilobyte inputs (hook H2)
    static const unsigned long sizes[] = {0, 0, 65536, 4096, 1024, 256};
    const unsigned long a = sizes[choose(S_CONF, 6)];
    const unsigned long b = sizes[choose(S_CONF, 6)];
    sim::clear_values();
    if (a) { sim::set_value("parser_buffer_size", a); }
    if (b) { sim::set_value("pbf_decoder_buffer_size", b); }
}

void config_queues() {
    static const char* qs[] = {"", "1", "2", "3", "5", "20"};
    sim::clear_env();
    const char* a = qs[choose(S_CONF, 6)];
    const char* b = qs[choose(S_CONF, 6)];
    const char* c = qs[choose(S_CONF, 6)];
    if (*a) { sim::set_env("OSMIUM_MAX_INPUT_QUEUE_SIZE", a); }
    if (*b) { sim::set_env("OSMIUM_MAX_OSMDATA_QUEUE_SIZE", b); }
    if (*c) { sim::set_env("OSMIUM_MAX_WORK_QUEUE_SIZE", c); }
    if (choose(S_CONF, 3) == 0) { sim::set_env("OSMIUM_USE_POOL_THREADS_FOR_PBF_PARSING", choose(S_CONF, 2) ? "no" : "false"); }
}

int pick_pool_threads() {
    static const int sizes[] = {1, 2, 3, 4, 8, 16, 32};
    const uint32_t a = choose(S_CONF, 7), b = choose(S_CONF, 7);
    return sizes[a < b ? a : b];
}

// ------------------------------------------------------------------------------------------------
// C06: parse result independent of chunking

void apply_chunking(const Input& in, bool from_buffer, bool shipped, std::string& desc) {
    simfs::Soft soft;
    static const size_t fixed[] = {1, 2, 3, 5, 7, 11, 13, 17, 100, 1000, 4096, 65536};
    const uint32_t policy = choose(sim::S_IO, 4);
    if (!from_buffer) {
        // Most runs use hook H4 (input_buffer_size) so that a read() does not allocate and clear 1 MiB each time;
        // one run in four keeps the shipped 1 MiB request size and relies on short reads alone.
        const bool shipped_size = shipped;
        if (policy == 0) {
            soft.chunk_mode = 1;
            soft.chunk = fixed[choose(sim::S_IO, 12)];
            if (shipped_size) {
                while (in.bytes.size() / soft.chunk > 30) { soft.chunk = soft.chunk * 2 + 1; }
            } else {
                sim::set_value("input_buffer_size", soft.chunk < 64 ? 64 : soft.chunk);
            }
            desc += std::string{shipped_size ? "(1 MiB requests) " : ""} + "fd reads of " + std::to_string(soft.chunk) + " bytes";
        } else if (policy == 1 && !shipped_size) {
            soft.chunk_mode = 2;
            desc += "fd reads of random length";
        } else if (policy == 2) {
            const uint32_t ncuts = 1 + choose(sim::S_IO, 2);
            for (uint32_t i = 0; i < ncuts && in.bytes.size() > 1; ++i) {
                // bias to the last bytes of the file
                size_t c = 1 + choose(sim::S_IO, static_cast<uint32_t>(in.bytes.size() - 1));
                if (choose(sim::S_IO, 3) == 0 && in.bytes.size() > 12) { c = in.bytes.size() - 1 - choose(sim::S_IO, 11); }
                soft.cuts.push_back(c);
            }
            std::sort(soft.cuts.begin(), soft.cuts.end());
            desc += "fd reads cut at";
            for (size_t c : soft.cuts) { desc += " " + std::to_string(c); }
        } else if (!shipped_size) {
            soft.chunk_mode = 2;
            soft.eintr_one_in = is_compressed(in.suffix) ? 0 : 6; // EINTR is only transparent for the plain read path
            desc += "fd reads of random length" + std::string{soft.eintr_one_in ? " with EINTR" : ""};
        }
    }
    if (is_compressed(in.suffix)) {
        static const size_t clamps[] = {0, 1, 3, 17, 100, 1000, 4096, 65536};
        size_t c = clamps[choose(sim::S_IO, 8)];
        // every piece costs a buffer allocation in the library (1 MiB shipped / hook value for fd, 10240 bytes for
        // memory input): keep the number of pieces per run bounded
        if (c && shipped) { c = 65536; }
        if (c && c < 17 && in.bytes.size() > 600) { c = 17; }
        sim::set_decomp_clamp(c);
        if (c) { desc += std::string{desc.empty() ? "" : ", "} + "decompressor output clamped to " + std::to_string(c); }
    }
    simfs::set_soft(soft);
}

// strict_exception: the exception type and message must be equal too (C06: "the error it reports depends only on
// the bytes"; its quantifier covers valid and truncated files). Not strict (C07, corrupted files): a corrupt
// compressed file may be rejected by the decompressor or - when garbage pieces reach the parser first - by the
// parser; the property only demands that the failure is reported.
void compare_outcomes(const char* prop, const char* oracle, const Input& in, bool from_buffer, const Outcome& ref, const Outcome& run, bool strict_exception = true) {
    const std::string kind = io_kind(in, from_buffer);
    const std::string pre = std::string{prop} + "." + oracle + "/" + kind + "/";
    if (run.nonstd_exception) {
        sim::report("oracle", pre + "non-std-exception", "an exception not derived from std::exception reached the caller");
        return;
    }
    if (ref.threw != run.threw) {
        if (run.threw) {
            sim::report("oracle", pre + "ref-ok-run-throws-" + exc_class(run), "reference run succeeded (" + std::to_string(ref.objs.size()) + " objects) but this run threw " + run.exc_type + " from " + run.where + ": " + run.exc_what);
        } else {
            sim::report("oracle", pre + "ref-throws-" + exc_class(ref) + "-run-ok", "reference run threw " + ref.exc_type + " (" + ref.exc_what + ") from " + ref.where + " but this run succeeded with " + std::to_string(run.objs.size()) + " objects");
        }
        return;
    }
    if (ref.threw) {
        if (!strict_exception) { return; }
        if (ref.exc_type != run.exc_type || ref.exc_what != run.exc_what) {
            sim::report("oracle", pre + "exception-differs-" + exc_class(ref) + "-vs-" + exc_class(run), "reference: " + ref.exc_type + " '" + ref.exc_what + "' run: " + run.exc_type + " '" + run.exc_what + "'");
            return;
        }
        if (!prefix_consistent(ref.objs, run.objs)) {
            sim::report("oracle", pre + "objects-before-error-differ", first_diff(ref.objs, run.objs));
        }
        if (ref.header_ok && run.header_ok && ref.header != run.header) {
            sim::report("oracle", pre + "header-differs", "reference " + ref.header + " run " + run.header);
        }
        return;
    }
    if (ref.header != run.header) {
        sim::report("oracle", pre + "header-differs", "reference " + ref.header + " run " + run.header);
        return;
    }
    if (ref.objs.size() != run.objs.size() || !prefix_consistent(ref.objs, run.objs)) {
        sim::report("oracle", pre + "objects-differ", first_diff(ref.objs, run.objs));
    }
}

void run_c06() {
    simfs::reset();
    sim::clear_values();
    Input in = pick_input(40, -1, 3);
    bool from_buffer = false;
    // memory inputs are delivered in one piece unless they are compressed (10 KiB pieces)
    if (is_compressed(in.suffix) && choose(S_WORK, 2)) { from_buffer = true; }
    // every truncation of a valid file is an input too
    std::string extra;
    if (choose(S_WORK, 3) == 0 && in.bytes.size() > 1) {
        const size_t len = choose(S_WORK, static_cast<uint32_t>(in.bytes.size()));
        in.bytes.resize(len);
        extra += ",\"truncated_to\":" + std::to_string(len);
    }
    put_input(in);
    const bool shipped = choose(S_CONF, 16) == 15;
    default_values(shipped);
    const Outcome ref = reference_read(in, from_buffer);

    std::string desc;
    ReaderOpts ro;
    ro.from_buffer = from_buffer;
    ro.pool_threads = 1 + static_cast<int>(choose(S_CONF, 3));
    sim::RunConfig cfg;
    sim::begin_run(cfg);
    apply_chunking(in, from_buffer, shipped, desc);
    const Outcome run = read_all(in, ro);
    sim::end_run();
    sim::set_decomp_clamp(0);
    sim::clear_values();
    simfs::set_soft(simfs::Soft{});
    sim::set_sample(sample_json(in, extra + ",\"from_buffer\":" + (from_buffer ? "true" : "false") + ",\"chunking\":\"" + desc + "\",\"reference\":\"" + (ref.threw ? "throws " + exc_class(ref) : std::to_string(ref.objs.size()) + " objects") + "\""));
    compare_outcomes("C06", "chunking", in, from_buffer, ref, run);
    if (ref.threw) { sim::probe("reference outcome is an exception"); }
    if (ref.objs.size() > 0 && !ref.threw) { sim::probe("reference outcome is data"); }
}

// ------------------------------------------------------------------------------------------------
// C05: each selected object exactly once, in file order

void run_c05() {
    simfs::reset();
    Input in = pick_input(400, static_cast<int>(choose(S_WORK, 2)), 12);
    const bool from_buffer = choose(S_WORK, 4) == 0;
    put_input(in);
    sim::clear_values();
    const Outcome ref = reference_read(in, from_buffer);

    ReaderOpts ro;
    ro.from_buffer = from_buffer;
    ro.pool_threads = pick_pool_threads();
    static const osmium::osm_entity_bits::type masks[] = {
        osmium::osm_entity_bits::all, osmium::osm_entity_bits::node, osmium::osm_entity_bits::way, osmium::osm_entity_bits::relation,
        osmium::osm_entity_bits::nwr, osmium::osm_entity_bits::node | osmium::osm_entity_bits::way, osmium::osm_entity_bits::node | osmium::osm_entity_bits::relation,
        osmium::osm_entity_bits::way | osmium::osm_entity_bits::relation, osmium::osm_entity_bits::changeset, osmium::osm_entity_bits::nothing,
        osmium::osm_entity_bits::node | osmium::osm_entity_bits::changeset, osmium::osm_entity_bits::way | osmium::osm_entity_bits::changeset,
        osmium::osm_entity_bits::relation | osmium::osm_entity_bits::changeset, osmium::osm_entity_bits::nwr | osmium::osm_entity_bits::changeset,
        osmium::osm_entity_bits::node | osmium::osm_entity_bits::way | osmium::osm_entity_bits::changeset, osmium::osm_entity_bits::way | osmium::osm_entity_bits::relation | osmium::osm_entity_bits::changeset};
    const uint32_t mi = choose(S_CONF, 3) == 0 ? choose(S_CONF, 16) : 0;
    ro.entities = masks[mi];
    ro.meta = choose(S_CONF, 4) == 0 ? osmium::io::read_meta::no : osmium::io::read_meta::yes;
    ro.buffers = choose(S_CONF, 3) == 0 ? osmium::io::buffers_type::single : osmium::io::buffers_type::any;
    ro.use_iterator = choose(S_CONF, 5) == 0;
    config_queues();
    config_buffers();
    sim::RunConfig cfg;
    sim::begin_run(cfg);
    const Outcome run = read_all(in, ro);
    sim::end_run();
    sim::clear_env();
    sim::clear_values();

    std::ostringstream extra;
    extra << ",\"from_buffer\":" << (from_buffer ? "true" : "false") << ",\"pool\":" << ro.pool_threads << ",\"mask\":" << static_cast<int>(ro.entities)
          << ",\"read_meta\":" << (ro.meta == osmium::io::read_meta::yes ? "true" : "false") << ",\"single\":" << (ro.buffers == osmium::io::buffers_type::single ? "true" : "false")
          << ",\"iterator\":" << (ro.use_iterator ? "true" : "false") << ",\"reference_objects\":" << ref.objs.size() << ",\"buffers\":" << run.buffer_masks.size();
    sim::set_sample(sample_json(in, extra.str()));

    const std::string kind = io_kind(in, from_buffer);
    check_leaks("C05", run, kind);
    if (run.nonstd_exception) {
        sim::report("oracle", "C05.result/" + kind + "/non-std-exception", "non-std exception");
        return;
    }
    if (ref.threw) {
        // input the library rejects even in the reference run: nothing to compare (fixtures are valid; generated o5m might not be)
        sim::probe("reference run rejected the input");
        if (!run.threw && ro.entities == osmium::osm_entity_bits::all) {
            sim::report("oracle", "C05.result/" + kind + "/ref-throws-run-ok", "reference threw " + ref.exc_what + " but the run succeeded");
        }
        return;
    }
    if (run.threw) {
        sim::report("oracle", "C05.result/" + kind + "/run-throws-" + exc_class(run), "reference succeeded but the run threw " + run.exc_type + " from " + run.where + ": " + run.exc_what);
        return;
    }
    if (ref.header != run.header) {
        sim::report("oracle", "C05.header/" + kind, "reference " + ref.header + " run " + run.header);
    }
    // expected: the reference sequence filtered by the entity mask
    std::vector<model::Rec> expected;
    for (const auto& r : ref.objs) {
        osmium::osm_entity_bits::type bit = osmium::osm_entity_bits::nothing;
        switch (r.type) {
            case 'n': bit = osmium::osm_entity_bits::node; break;
            case 'w': bit = osmium::osm_entity_bits::way; break;
            case 'r': bit = osmium::osm_entity_bits::relation; break;
            case 'c': bit = osmium::osm_entity_bits::changeset; break;
            default: break;
        }
        if (ro.entities & bit) { expected.push_back(r); }
    }
    const bool meta_relaxed = ro.meta == osmium::io::read_meta::no;
    if (expected.size() != run.objs.size()) {
        sim::report("oracle", "C05.sequence/" + kind + "/count", "expected " + std::to_string(expected.size()) + " objects (mask " + std::to_string(static_cast<int>(ro.entities)) + "), run delivered " + std::to_string(run.objs.size()) + "; " + first_diff(expected, run.objs));
    } else {
        for (size_t i = 0; i < expected.size(); ++i) {
            const model::Rec& e = expected[i];
            const model::Rec& g = run.objs[i];
            bool same = e.type == g.type && e.id == g.id && e.content == g.content;
            if (same) {
                if (!meta_relaxed || e.type == 'c') {
                    same = (e == g);
                } else {
                    // each metadata field is either identical or the type's default
                    same = (g.version == e.version || g.version == 0) && (g.changeset == e.changeset || g.changeset == 0) && (g.ts == e.ts || g.ts == 0) &&
                           (g.uid == e.uid || g.uid == 0) && (g.user == e.user || g.user.empty()) && (g.visible == e.visible || g.visible);
                }
            }
            if (!same) {
                sim::report("oracle", "C05.sequence/" + kind + (meta_relaxed ? "/read_meta-no" : "") + "/object-differs", "object #" + std::to_string(i) + ": expected {" + e.str().substr(0, 300) + "} got {" + g.str().substr(0, 300) + "}");
                break;
            }
        }
    }
    if (!run.read_after_eof_throws) {
        sim::report("oracle", "C05.eof/" + kind + "/read-after-end-does-not-throw", "read() after the end-of-data marker did not throw osmium::io_error");
    }
    if (!run.eof_flag_ok) {
        sim::report("oracle", "C05.eof/" + kind + "/eof-flag", "eof() false after end of data or after close()");
    }
    if (ro.buffers == osmium::io::buffers_type::single && !ro.use_iterator) {
        for (unsigned m : run.buffer_masks) {
            if (__builtin_popcount(m) > 1) {
                sim::report("oracle", "C05.single/" + kind + "/mixed-buffer", "buffers_type::single but a buffer contains several item types (mask " + std::to_string(m) + ")");
                break;
            }
        }
    }
    if (run.buffer_masks.size() >= 3) { sim::probe("three or more buffers delivered"); }
    if (ro.pool_threads >= 2 && is_pbf(in.suffix)) { sim::probe("PBF decoded with >= 2 pool threads"); }
}

} // namespace

// further modes (C07, C03) live in reader_faults.inc to keep this file readable
#include "reader_faults.inc"

int main(int argc, char** argv) {
    load_fixtures();
    return sim::worker_main(argc, argv, [](const sim::RunInfo& info) {
        if (info.mode == "c06") { run_c06(); }
        else if (info.mode == "c05") { run_c05(); }
        else if (info.mode == "c07") { run_c07(); }
        else if (info.mode == "c03") { run_c03(); }
        else { sim::report("harness-error", "harness/unknown-mode", info.mode); }
    });
}
