// C12 — all id->value index implementations behave as one map (restricted claim, DESIGN.md section 5).
// What the simulator decides: where every (re)mapping of the mmap/file backed vectors lands (always a fresh,
// never reused address, or the kernel's choice), short writes/EINTR while dumping, a full disk reported while
// growing the backing file. The history x implementation space is the seed-driven workload.

#include "sim.hpp"
#include "simfs.hpp"

#include <osmium/builder/osm_object_builder.hpp>
#include <osmium/handler/node_locations_for_ways.hpp>
#include <osmium/index/map/all.hpp>
#include <osmium/index/node_locations_map.hpp>
#include <osmium/visitor.hpp>

#include <algorithm>
#include <cerrno>
#include <cstring>
#include <new>
#include <system_error>
#include <cstdio>
#include <map>
#include <memory>
#include <set>
#include <sstream>
#include <string>
#include <vector>

#include <fcntl.h>
#include <unistd.h>

using sim::choose;
using sim::S_CONF;
using sim::S_FAULT;
using sim::S_WORK;

namespace {

using id_type = osmium::unsigned_object_id_type;
using map_type = osmium::index::map::Map<id_type, osmium::Location>;
using factory_type = osmium::index::MapFactory<id_type, osmium::Location>;

std::string g_tmpdir;

const char* all_types[] = {"dense_mem_array", "sparse_mem_array", "sparse_mem_map", "flex_mem", "flex_mem_dense", "dense_mmap_array", "sparse_mmap_array", "dense_file_array", "sparse_file_array"};
bool is_dense(const std::string& t) { return t.compare(0, 5, "dense") == 0; }

// "flex_mem_dense" is FlexMem constructed in dense mode (constructor argument; the factory only creates the sparse start)
std::unique_ptr<map_type> make_map(const std::string& t) {
    if (t == "flex_mem_dense") { return std::unique_ptr<map_type>{new osmium::index::map::FlexMem<id_type, osmium::Location>{true}}; }
    return factory_type::instance().create_map(t);
}

osmium::Location loc_for(id_type id, uint32_t salt) {
    const int32_t x = static_cast<int32_t>((id * 2654435761ULL + salt) % 3600000000ULL) - 1800000000;
    const int32_t y = static_cast<int32_t>((id * 40503ULL + salt * 7) % 1800000000ULL) - 900000000;
    return osmium::Location{x, y};
}


// The file based maps never close their descriptors (tmpfile() handles and create_map_with_fd() descriptors live
// until the process ends). A worker process executes thousands of runs, so descriptors opened during a run are
// closed when it ends.
std::set<int> open_real_fds() {
    std::set<int> fds;
    for (int fd = 3; fd < 1000; ++fd) {
        if (::fcntl(fd, F_GETFD) != -1) { fds.insert(fd); }
    }
    return fds;
}

struct FdCleanup {
    std::set<int> before = open_real_fds();
    ~FdCleanup() {
        for (int fd : open_real_fds()) {
            if (!before.count(fd)) { ::close(fd); }
        }
    }
};


// A failure of the *real* machine under the harness (temporary directory full, out of descriptors or memory) is not a
// verdict about libosmium: reported as class "infrastructure", which the driver turns into exit 2, never a VIOLATION.
void report_exception(const std::string& sig, const std::string& what_prefix, const std::exception& e) {
    const auto* se = dynamic_cast<const std::system_error*>(&e);
    if (se) {
        const int v = se->code().value();
        if (v == ENOSPC || v == EMFILE || v == ENFILE || v == ENOMEM || v == EDQUOT || v == EROFS) {
            sim::report("infrastructure", "infrastructure/c12/" + std::string{std::strerror(v)}, what_prefix + e.what());
            return;
        }
    }
    if (dynamic_cast<const std::bad_alloc*>(&e)) {
        sim::report("infrastructure", "infrastructure/c12/bad_alloc", what_prefix + e.what());
        return;
    }
    sim::report("oracle", sig, what_prefix + e.what());
}

struct History {
    std::vector<id_type> ids;   // distinct, in insertion order
    uint32_t salt = 0;
    id_type max_id = 0;
    std::string desc;
};

History gen_history() {
    History h;
    h.salt = choose(S_WORK, 1000);
    const uint32_t profile = choose(S_WORK, 8);
    std::set<id_type> seen;
    auto add = [&](id_type id) {
        if (seen.insert(id).second) { h.ids.push_back(id); }
    };
    const uint32_t n = 1 + choose(S_WORK, 600);
    bool fixed_order = false;
    switch (profile) {
        case 0: // small dense range
            h.desc = "dense 0..n";
            for (uint32_t i = 0; i < n; ++i) { add(i); }
            break;
        case 1: // around multiples of 2^16
            h.desc = "around multiples of 2^16";
            for (uint32_t i = 0; i < n; ++i) { add((1ULL << 16) * (1 + choose(S_WORK, 12)) + choose(S_WORK, 7) - 3); }
            break;
        case 2: // around the 1 Mi-element growth steps of the mmap vectors
            h.desc = "around multiples of 2^20 (growth steps)";
            for (uint32_t i = 0; i < n; ++i) { add((1ULL << 20) * (1 + choose(S_WORK, 3)) + choose(S_WORK, 9) - 4); }
            break;
        case 3: // sparse
            h.desc = "sparse 32-bit";
            for (uint32_t i = 0; i < n; ++i) { add(choose(S_WORK, 0xfffffff0U)); }
            break;
        case 4: // mixed small and growth-step ids
            h.desc = "mixed";
            for (uint32_t i = 0; i < n; ++i) { add(choose(S_WORK, 2) ? choose(S_WORK, 5000) : (1ULL << 20) + choose(S_WORK, 2000000)); }
            break;
        case 5: // clustered
            h.desc = "clusters";
            for (uint32_t c = 0; c < 1 + n / 50; ++c) {
                const id_type base = choose(S_WORK, 3000000);
                for (uint32_t i = 0; i < 50; ++i) { add(base + choose(S_WORK, 200)); }
            }
            break;
        case 7: { // FlexMem: a dense prefix (so that the sparse->dense switch happens with the lowered threshold), then ids
                  // scattered over 64Ki-blocks in an order that visits high blocks before lower untouched ones
            h.desc = "dense prefix then scattered blocks";
            const uint32_t prefix = 220 + choose(S_WORK, 300);
            for (uint32_t i = 0; i < prefix; ++i) { add(i); }
            const uint32_t blocks = 2 + choose(S_WORK, 38);
            for (uint32_t i = 0; i < n; ++i) { add((static_cast<id_type>(choose(S_WORK, blocks)) << 16) + (choose(S_WORK, 3) ? choose(S_WORK, 65536) : (choose(S_WORK, 2) ? choose(S_WORK, 4) : 65535 - choose(S_WORK, 4)))); }
            fixed_order = true;
            break;
        }
        default: // id 0 and the dense maximum
            h.desc = "boundaries";
            add(0);
            add(1);
            add((1ULL << 20) - 1);
            add(1ULL << 20);
            add((1ULL << 21) + 1);
            for (uint32_t i = 0; i < n / 4; ++i) { add(choose(S_WORK, 1 << 21)); }
            break;
    }
    // order
    const uint32_t order = fixed_order ? 0 : choose(S_WORK, 4);
    if (order == 1) { std::sort(h.ids.begin(), h.ids.end()); }
    else if (order == 2) { std::sort(h.ids.rbegin(), h.ids.rend()); }
    else if (order == 3) {
        for (size_t i = h.ids.size(); i > 1; --i) { std::swap(h.ids[i - 1], h.ids[choose(S_WORK, static_cast<uint32_t>(i))]); }
    }
    for (id_type id : h.ids) { h.max_id = std::max(h.max_id, id); }
    return h;
}

std::vector<id_type> probe_ids(const History& h) {
    std::vector<id_type> p;
    for (size_t i = 0; i < h.ids.size(); i += 1 + h.ids.size() / 300) {
        const id_type id = h.ids[i];
        p.push_back(id);
        p.push_back(id + 1);
        if (id > 0) { p.push_back(id - 1); }
    }
    for (int i = 0; i < 20; ++i) { p.push_back(choose(S_WORK, 4000000)); }
    p.push_back(h.max_id + 1);
    p.push_back(h.max_id + (1ULL << 20));
    p.push_back(0);
    return p;
}

// compare one map with the model on the probe set; returns a description of the first difference
std::string compare(map_type& m, const std::map<id_type, osmium::Location>& model, const std::vector<id_type>& probes) {
    for (id_type id : probes) {
        const auto it = model.find(id);
        const osmium::Location got = m.get_noexcept(id);
        const osmium::Location want = it == model.end() ? osmium::index::empty_value<osmium::Location>() : it->second;
        if (got != want) {
            std::ostringstream o;
            o << "get_noexcept(" << id << ") = (" << got.x() << "," << got.y() << "), model says " << (it == model.end() ? "not found" : "(" + std::to_string(want.x()) + "," + std::to_string(want.y()) + ")");
            return o.str();
        }
        bool threw = false;
        try {
            const osmium::Location g2 = m.get(id);
            if (g2 != want) { return "get(" + std::to_string(id) + ") returns a different value than get_noexcept"; }
        } catch (const osmium::not_found&) {
            threw = true;
        }
        if (threw != (it == model.end())) {
            return "get(" + std::to_string(id) + ") " + (threw ? "threw not_found for an inserted id" : "returned a value for an id that was never inserted");
        }
    }
    return {};
}

std::string real_tmp(const char* tag) {
    static int counter = 0;
    return g_tmpdir + "/" + tag + "-" + std::to_string(++counter);
}

void write_real_file(const std::string& path, const std::string& bytes) {
    FILE* f = std::fopen(path.c_str(), "wb");
    if (f) {
        std::fwrite(bytes.data(), 1, bytes.size(), f);
        std::fclose(f);
    }
}

void run_maps() {
    const FdCleanup fd_cleanup;
    simfs::reset();
    sim::clear_values();
    const History h = gen_history();
    std::map<id_type, osmium::Location> model;
    for (id_type id : h.ids) { model[id] = loc_for(id, h.salt); }
    const std::vector<id_type> probes = probe_ids(h);
    {
        uint64_t hh = 1469598103934665603ULL;
        for (id_type id : h.ids) { hh = (hh ^ id) * 1099511628211ULL; }
        sim::add_to_signature(hh); // distinctness: the insertion history is part of the case
    }
    const bool move_always = choose(S_CONF, 3) != 0;
    const bool flex_small = choose(S_CONF, 2) != 0;
    if (flex_small) { sim::set_value("flexmem_min_dense_entries", 16 + choose(S_CONF, 200)); }
    const bool dense_ok = h.max_id < (3ULL << 20) + 100000; // dense vectors allocate max_id entries
    // subset of implementations for this run
    std::vector<std::string> types;
    for (const char* t : all_types) {
        if (is_dense(t) && !dense_ok) { continue; }
        if (choose(S_CONF, 2) || std::string{t} == "sparse_mem_array") { types.push_back(t); }
    }
    std::ostringstream sample;
    sample << "{\"history\":\"" << h.desc << "\",\"ids\":" << h.ids.size() << ",\"max_id\":" << h.max_id << ",\"move_always\":" << (move_always ? "true" : "false") << ",\"types\":\"";
    for (const auto& t : types) { sample << t << " "; }
    sample << "\"}";
    sim::set_sample(sample.str());

    sim::RunConfig cfg;
    cfg.preemptive = false;
    sim::begin_run(cfg);
    sim::set_map_policy(move_always, -1);
    simfs::Soft soft;
    soft.short_write_one_in = 2;
    soft.eintr_one_in = 4;
    simfs::set_soft(soft);
    const auto& factory = factory_type::instance();
    for (const auto& t : types) {
        std::string diff;
        try {
            std::unique_ptr<map_type> m = make_map(t);
            for (id_type id : h.ids) { m->set(id, loc_for(id, h.salt)); }
            m->sort();
            if (const auto* fm = dynamic_cast<const osmium::index::map::FlexMem<id_type, osmium::Location>*>(m.get())) {
                if (fm->is_dense() && t == "flex_mem") { sim::probe("FlexMem switched from sparse to dense (lowered threshold)"); }
                if (fm->is_dense() && h.max_id >= 65536) { sim::probe("FlexMem in dense mode holds several 64Ki blocks"); }
            }
            diff = compare(*m, model, probes);
            if (!diff.empty()) {
                sim::report("oracle", "C12.map/" + t + "/lookup-differs-from-model", t + " after " + std::to_string(h.ids.size()) + " insertions (" + h.desc + "): " + diff);
                continue;
            }
            if (h.max_id >= (1ULL << 20) && (t == "dense_mmap_array" || t == "dense_file_array")) { sim::probe("dense mmap/file vector grew beyond its first 1 Mi elements"); }
            // ---- dump and reload (short writes and EINTR while dumping)
            const bool as_array = is_dense(t) || (t.compare(0, 6, "sparse") == 0 && t != "sparse_mem_map" && dense_ok && choose(S_CONF, 2));
            const bool can_list = !is_dense(t) && t.compare(0, 8, "flex_mem") != 0;
            if (t.compare(0, 8, "flex_mem") == 0) { continue; } // FlexMem has no dump functions
            if (!as_array && !can_list) { continue; }
            const std::string dump_path = "/sim/dump";
            simfs::remove_file(dump_path);
            const int fd = ::open(dump_path.c_str(), O_WRONLY | O_CREAT | O_TRUNC, 0644);
            if (as_array) { m->dump_as_array(fd); } else { m->dump_as_list(fd); }
            ::close(fd);
            std::string bytes;
            simfs::get_file(dump_path, &bytes);
            const std::string real = real_tmp(as_array ? "array" : "list");
            write_real_file(real, bytes);
            const std::string reload_type = as_array ? "dense_file_array" : "sparse_file_array";
            {
                std::unique_ptr<map_type> r = factory.create_map(reload_type + "," + real);
                const std::string d2 = compare(*r, model, probes);
                if (!d2.empty()) {
                    sim::report("oracle", "C12.reload/" + t + "/" + (as_array ? "dump_as_array" : "dump_as_list") + "/lookup-differs-from-model",
                                t + " dumped " + (as_array ? "as array" : "as list") + " (" + std::to_string(bytes.size()) + " bytes) and reloaded as " + reload_type + ": " + d2);
                }
                sim::probe(as_array ? "dumped as array and reloaded" : "dumped as list and reloaded");
            }
            ::unlink(real.c_str());
        } catch (const std::exception& e) {
            report_exception("C12.map/" + t + "/unexpected-exception", t + " threw ", e);
        }
    }
    sim::end_run();
    sim::set_map_policy(false, -1);
    sim::clear_values();
    simfs::set_soft(simfs::Soft{});
    sim::set_nontrivial(true);
}


// Growth of the sparse mmap/file vectors: more than 2^20 entries so that mmap_vector_base::reserve()/resize() has to
// grow the mapping (mremap for anonymous, munmap+ftruncate+mmap for file backed vectors) while entries are appended.
// The model is a formula (id = k*stride + offset <-> inserted), probes are sampled.
void run_growth(bool flex_big = false) {
    const FdCleanup fd_cleanup;
    simfs::reset();
    static const char* types[] = {"sparse_mmap_array", "sparse_file_array", "dense_mmap_array", "dense_file_array"};
    const std::string t = flex_big ? std::string{"flex_mem"} : std::string{types[choose(S_CONF, 4)]};
    const bool dense = is_dense(t);
    const id_type stride = flex_big ? 1 + choose(S_WORK, 2) : (dense ? 1 + choose(S_WORK, 2) : 1 + choose(S_WORK, 5));
    const id_type offset = choose(S_WORK, 7);
    // flex_big: the shipped threshold of FlexMem's automatic sparse->dense switch (0xffffff entries) is crossed
    const id_type n = flex_big ? (1ULL << 24) + 1 + choose(S_WORK, 5000) : (1ULL << 20) + 1 + choose(S_WORK, dense ? 1200000 : 300000);
    const uint32_t order = choose(S_WORK, 3); // 0 ascending, 1 descending, 2 two interleaved halves
    const uint32_t salt = choose(S_WORK, 1000);
    const bool move_always = choose(S_CONF, 3) != 0;
    sim::add_to_signature(n * 31 + stride * 7 + offset + order * 1000003ULL + (dense ? 5 : 0));
    sim::set_sample("{\"type\":\"" + t + "\",\"entries\":" + std::to_string(n) + ",\"stride\":" + std::to_string(stride) + ",\"order\":" + std::to_string(order) + ",\"move_always\":" + (move_always ? "true" : "false") + "}");
    sim::RunConfig cfg;
    cfg.preemptive = false;
    sim::begin_run(cfg);
    sim::set_map_policy(move_always, -1);
    try {
        std::unique_ptr<map_type> m = factory_type::instance().create_map(t);
        auto id_of = [&](id_type k) { return k * stride + offset; };
        if (order == 0) {
            for (id_type k = 0; k < n; ++k) { m->set(id_of(k), loc_for(id_of(k), salt)); }
        } else if (order == 1) {
            for (id_type k = n; k-- > 0;) { m->set(id_of(k), loc_for(id_of(k), salt)); }
        } else {
            for (id_type k = 0; k < n; k += 2) { m->set(id_of(k), loc_for(id_of(k), salt)); }
            for (id_type k = 1; k < n; k += 2) { m->set(id_of(k), loc_for(id_of(k), salt)); }
        }
        m->sort();
        std::string diff;
        for (int i = 0; i < 3000 && diff.empty(); ++i) {
            id_type id = 0;
            const uint32_t how = choose(S_WORK, 4);
            if (how == 0) { id = id_of(choose(S_WORK, static_cast<uint32_t>(n))); }
            else if (how == 1) { id = id_of((1ULL << 20) - 3 + choose(S_WORK, 7)); }              // around the first growth step
            else if (how == 2) { id = id_of(n - 1) - 3 + choose(S_WORK, 8); }                     // around the end
            else { id = choose(S_WORK, static_cast<uint32_t>(std::min<id_type>(id_of(n) + 1000, 0xfffffff0ULL))); }
            const bool inserted = id >= offset && (id - offset) % stride == 0 && (id - offset) / stride < n;
            const osmium::Location want = inserted ? loc_for(id, salt) : osmium::index::empty_value<osmium::Location>();
            const osmium::Location got = m->get_noexcept(id);
            if (got != want) {
                diff = "get_noexcept(" + std::to_string(id) + ") = (" + std::to_string(got.x()) + "," + std::to_string(got.y()) + "), expected " + (inserted ? "(" + std::to_string(want.x()) + "," + std::to_string(want.y()) + ")" : std::string{"not found"});
            }
        }
        if (!diff.empty()) {
            sim::report("oracle", "C12.growth/" + t + "/lookup-differs-from-model", t + " with " + std::to_string(n) + " entries (stride " + std::to_string(stride) + ", order " + std::to_string(order) + "): " + diff);
        }
        if (flex_big) { sim::probe("FlexMem filled with more than 2^24 entries (shipped sparse->dense switch threshold)"); }
        if (m->size() != n && !dense && !flex_big) {
            sim::report("oracle", "C12.growth/" + t + "/size", t + " reports size " + std::to_string(m->size()) + " after " + std::to_string(n) + " insertions");
        }
        sim::probe("sparse or dense mmap/file vector grew beyond 2^20 entries while filling");
    } catch (const std::exception& e) {
        report_exception("C12.growth/" + t + "/unexpected-exception", t + " threw ", e);
    }
    sim::end_run();
    sim::set_map_policy(false, -1);
    sim::set_nontrivial(true);
}

// growing the backing file fails: std::system_error, nothing else
void run_nospace() {
    const FdCleanup fd_cleanup;
    simfs::reset();
    const bool sparse = choose(S_CONF, 2) != 0;
    const std::string t = sparse ? "sparse_file_array" : "dense_file_array";
    const int fail_at = static_cast<int>(choose(S_FAULT, 3));
    sim::add_to_signature(static_cast<uint64_t>(fail_at) * 31 + (sparse ? 7 : 3));
    sim::set_sample(std::string{"{\"type\":\""} + t + "\",\"no_space_at_fstatvfs_call\":" + std::to_string(fail_at) + "}");
    sim::RunConfig cfg;
    cfg.preemptive = false;
    sim::begin_run(cfg);
    sim::set_map_policy(choose(S_CONF, 2) != 0, fail_at);
    bool threw_system_error = false;
    std::string other;
    try {
        std::unique_ptr<map_type> m = factory_type::instance().create_map(t);
        // enough insertions to force the backing file to grow several times
        const id_type steps = 1 + choose(S_WORK, 4);
        if (sparse) {
            for (id_type i = 0; i < steps * (1ULL << 20) + 10; i += 1) { m->set(i * 3, loc_for(i, 1)); }
        } else {
            for (id_type s = 0; s <= steps; ++s) { m->set(s * (1ULL << 20) + 5, loc_for(s, 1)); }
        }
    } catch (const std::system_error&) {
        threw_system_error = true;
    } catch (const std::exception& e) {
        other = e.what();
    }
    sim::end_run();
    sim::set_map_policy(false, -1);
    if (!other.empty()) { sim::report("oracle", "C12.nospace/" + t + "/wrong-exception", "a full disk while growing the file was reported as: " + other); }
    if (threw_system_error) { sim::probe("full disk reported as std::system_error"); }
    sim::set_nontrivial(true);
}

// ways passed through NodeLocationsForWays receive the location of the node with that id (positive or negative)
void run_handler() {
    const FdCleanup fd_cleanup;
    simfs::reset();
    using index_type = osmium::index::map::Map<id_type, osmium::Location>;
    const uint32_t n = 1 + choose(S_WORK, 300);
    std::vector<int64_t> node_ids;
    std::set<int64_t> seen;
    for (uint32_t i = 0; i < n; ++i) {
        int64_t id = 1 + static_cast<int64_t>(choose(S_WORK, 5000));
        if (choose(S_WORK, 3) == 0) { id = -id; }
        if (seen.insert(id).second) { node_ids.push_back(id); }
    }
    const uint32_t order = choose(S_WORK, 4);
    if (order == 0) { std::sort(node_ids.begin(), node_ids.end()); }
    else if (order == 1) { std::sort(node_ids.rbegin(), node_ids.rend()); }
    else if (order == 2) { std::sort(node_ids.begin(), node_ids.end(), [](int64_t a, int64_t b) { return std::llabs(a) < std::llabs(b); }); }
    static const char* pos_types[] = {"sparse_mem_array", "flex_mem", "sparse_mmap_array", "dense_mmap_array", "sparse_file_array", "dense_file_array", "sparse_mem_map", "dense_mem_array"};
    {
        uint64_t hh = 1469598103934665603ULL;
        for (int64_t id : node_ids) { hh = (hh ^ static_cast<uint64_t>(id)) * 1099511628211ULL; }
        sim::add_to_signature(hh);
    }
    const std::string pt = pos_types[choose(S_CONF, 8)];
    const std::string nt = pos_types[choose(S_CONF, 8)];
    sim::set_sample("{\"nodes\":" + std::to_string(node_ids.size()) + ",\"order\":" + std::to_string(order) + ",\"pos_index\":\"" + pt + "\",\"neg_index\":\"" + nt + "\"}");
    sim::RunConfig cfg;
    cfg.preemptive = false;
    sim::begin_run(cfg);
    sim::set_map_policy(choose(S_CONF, 2) != 0, -1);
    try {
        std::unique_ptr<index_type> pos = factory_type::instance().create_map(pt);
        std::unique_ptr<index_type> neg = factory_type::instance().create_map(nt);
        osmium::handler::NodeLocationsForWays<index_type, index_type> handler{*pos, *neg};
        osmium::memory::Buffer buffer{1024 * 1024, osmium::memory::Buffer::auto_grow::no};
        for (int64_t id : node_ids) {
            osmium::builder::NodeBuilder b{buffer};
            b.set_id(id);
            b.set_location(loc_for(static_cast<id_type>(std::llabs(id)), id < 0 ? 3 : 5));
            b.set_user("");
        }
        buffer.commit();
        // ways referring to known nodes
        const uint32_t nways = 1 + choose(S_WORK, 20);
        std::vector<std::vector<int64_t>> refs(nways);
        for (uint32_t w = 0; w < nways; ++w) {
            {
                osmium::builder::WayBuilder b{buffer};
                b.set_id(w + 1);
                b.set_user("");
                osmium::builder::WayNodeListBuilder wl{b};
                const uint32_t k = 1 + choose(S_WORK, 12);
                for (uint32_t i = 0; i < k; ++i) {
                    const int64_t ref = node_ids[choose(S_WORK, static_cast<uint32_t>(node_ids.size()))];
                    refs[w].push_back(ref);
                    wl.add_node_ref(ref);
                }
            }
            buffer.commit();
        }
        osmium::apply(buffer, handler);
        uint32_t w = 0;
        for (const auto& way : buffer.select<osmium::Way>()) {
            size_t i = 0;
            for (const auto& nr : way.nodes()) {
                const int64_t ref = refs[w][i++];
                const osmium::Location want = loc_for(static_cast<id_type>(std::llabs(ref)), ref < 0 ? 3 : 5);
                if (nr.location() != want) {
                    sim::report("oracle", "C12.handler/" + std::string{ref < 0 ? nt : pt} + "/wrong-location", "way " + std::to_string(way.id()) + " node ref " + std::to_string(ref) + " got (" + std::to_string(nr.location().x()) + "," + std::to_string(nr.location().y()) + ")");
                    break;
                }
            }
            ++w;
        }
        // A way with a reference to a node that never arrived: the handler documents osmium::not_found (unless
        // ignore_errors() was called). C12's statement does not name this behaviour, so it is counted, not judged.
        {
            osmium::memory::Buffer wb{4096, osmium::memory::Buffer::auto_grow::no};
            {
                osmium::builder::WayBuilder b{wb};
                b.set_id(999);
                b.set_user("");
                osmium::builder::WayNodeListBuilder wl{b};
                const uint32_t k = 2 + choose(S_WORK, 5);
                const uint32_t missing_at = choose(S_WORK, k);
                for (uint32_t i = 0; i < k; ++i) { wl.add_node_ref(i == missing_at ? 7000 + static_cast<int64_t>(choose(S_WORK, 100)) : node_ids[choose(S_WORK, static_cast<uint32_t>(node_ids.size()))]); }
            }
            wb.commit();
            bool nf = false;
            try {
                osmium::apply(wb, handler);
            } catch (const osmium::not_found&) {
                nf = true;
            }
            sim::probe(nf ? "way with a missing node: handler threw not_found (documented behaviour, not part of C12)" : "way with a missing node: handler did NOT throw not_found (documented behaviour, not part of C12)");
        }
    } catch (const std::exception& e) {
        report_exception("C12.handler/unexpected-exception", "", e);
    }
    sim::end_run();
    sim::set_map_policy(false, -1);
    sim::set_nontrivial(true);
}

} // namespace

int main(int argc, char** argv) {
    char tmpl[] = "/var/tmp/verif-c12-XXXXXX";
    const char* d = mkdtemp(tmpl);
    g_tmpdir = d ? d : "/var/tmp";
    const int rc = sim::worker_main(argc, argv, [](const sim::RunInfo& info) {
        if (info.mode == "maps") { run_maps(); }
        else if (info.mode == "nospace") { run_nospace(); }
        else if (info.mode == "growth") { run_growth(); }
        else if (info.mode == "flexbig") { run_growth(true); }
        else if (info.mode == "handler") { run_handler(); }
        else { sim::report("harness-error", "harness/unknown-mode", info.mode); }
    });
    if (d) { ::rmdir(d); }
    return rc;
}
