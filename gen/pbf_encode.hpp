// Small PBF encoder written from the format description (https://wiki.openstreetmap.org/wiki/PBF_Format),
// independent of libosmium's writer and of protozero. It produces spec-conformant files libosmium itself never
// writes: several PrimitiveGroups of different types in one block, plain and dense nodes mixed, raw and zlib
// blobs, optional fields left out. Used as reader input only; all oracles on it are differential.
#pragma once

#include "model.hpp"

#include <zlib.h>

#include <cstdint>
#include <map>
#include <string>
#include <vector>

namespace pbfenc {

inline void put_varint(std::string& o, uint64_t v) {
    while (v >= 0x80) {
        o += static_cast<char>((v & 0x7f) | 0x80);
        v >>= 7;
    }
    o += static_cast<char>(v);
}
inline uint64_t zz(int64_t v) { return (static_cast<uint64_t>(v) << 1) ^ static_cast<uint64_t>(v >> 63); }
inline void put_key(std::string& o, uint32_t field, uint32_t wire) { put_varint(o, (static_cast<uint64_t>(field) << 3) | wire); }
inline void put_bytes(std::string& o, uint32_t field, const std::string& b) {
    put_key(o, field, 2);
    put_varint(o, b.size());
    o += b;
}
inline void put_int(std::string& o, uint32_t field, uint64_t v) {
    put_key(o, field, 0);
    put_varint(o, v);
}

struct Options {
    bool dense = true;            // nodes as DenseNodes
    bool zlib = true;             // blobs zlib compressed (else raw)
    bool with_info = true;
    bool history = false;
    uint32_t max_groups_per_block = 3;   // several groups (of different types) per block
    uint32_t max_objects_per_group = 20;
};

class Block {
    std::vector<std::string> m_strings{""};
    std::map<std::string, uint32_t> m_index;

public:
    uint32_t sid(const std::string& s) {
        if (s.empty()) { return 0; }
        auto it = m_index.find(s);
        if (it != m_index.end()) { return it->second; }
        m_strings.push_back(s);
        m_index[s] = static_cast<uint32_t>(m_strings.size() - 1);
        return static_cast<uint32_t>(m_strings.size() - 1);
    }
    std::string stringtable() const {
        std::string st;
        for (const auto& s : m_strings) { put_bytes(st, 1, s); }
        return st;
    }
};

inline std::string info(Block& b, const model::Obj& o, const Options& opt) {
    std::string i;
    put_int(i, 1, o.version);
    put_int(i, 2, o.timestamp);
    put_int(i, 3, o.changeset);
    put_int(i, 4, o.uid);
    put_int(i, 5, b.sid(o.user));
    if (opt.history) { put_int(i, 6, o.visible ? 1 : 0); }
    return i;
}

inline std::string packed_u(const std::vector<uint64_t>& v) {
    std::string p;
    for (uint64_t x : v) { put_varint(p, x); }
    return p;
}

inline std::string group(Block& b, const std::vector<const model::Obj*>& objs, const Options& opt) {
    std::string g;
    const char type = objs[0]->type;
    if (type == 'n' && opt.dense) {
        std::vector<uint64_t> ids, lats, lons, kv, ver, ts, cs, uid, usid, vis;
        int64_t pid = 0, plat = 0, plon = 0, pts = 0, pcs = 0, puid = 0, pus = 0;
        bool any_tags = false;
        for (const auto* o : objs) {
            ids.push_back(zz(o->id - pid)); pid = o->id;
            const int64_t lat = o->has_loc ? o->y : 0, lon = o->has_loc ? o->x : 0;
            lats.push_back(zz(lat - plat)); plat = lat;
            lons.push_back(zz(lon - plon)); plon = lon;
            for (const auto& t : o->tags) { kv.push_back(b.sid(t.k)); kv.push_back(b.sid(t.v)); any_tags = true; }
            kv.push_back(0);
            ver.push_back(o->version);
            ts.push_back(zz(static_cast<int64_t>(o->timestamp) - pts)); pts = o->timestamp;
            cs.push_back(zz(static_cast<int64_t>(o->changeset) - pcs)); pcs = o->changeset;
            uid.push_back(zz(static_cast<int64_t>(o->uid) - puid)); puid = o->uid;
            const int64_t us = b.sid(o->user);
            usid.push_back(zz(us - pus)); pus = us;
            vis.push_back(o->visible ? 1 : 0);
        }
        std::string d;
        put_bytes(d, 1, packed_u(ids));
        if (opt.with_info) {
            std::string di;
            put_bytes(di, 1, packed_u(ver));
            put_bytes(di, 2, packed_u(ts));
            put_bytes(di, 3, packed_u(cs));
            put_bytes(di, 4, packed_u(uid));
            put_bytes(di, 5, packed_u(usid));
            if (opt.history) { put_bytes(di, 6, packed_u(vis)); }
            put_bytes(d, 5, di);
        }
        put_bytes(d, 8, packed_u(lats));
        put_bytes(d, 9, packed_u(lons));
        if (any_tags) { put_bytes(d, 10, packed_u(kv)); }
        put_bytes(g, 2, d);
        return g;
    }
    for (const auto* o : objs) {
        std::string m;
        std::vector<uint64_t> keys, vals;
        for (const auto& t : o->tags) { keys.push_back(b.sid(t.k)); vals.push_back(b.sid(t.v)); }
        if (type == 'n') {
            put_int(m, 1, zz(o->id));
            if (!keys.empty()) { put_bytes(m, 2, packed_u(keys)); put_bytes(m, 3, packed_u(vals)); }
            if (opt.with_info) { put_bytes(m, 4, info(b, *o, opt)); }
            put_int(m, 8, zz(o->has_loc ? o->y : 0));
            put_int(m, 9, zz(o->has_loc ? o->x : 0));
            put_bytes(g, 1, m);
        } else if (type == 'w') {
            put_int(m, 1, static_cast<uint64_t>(o->id));
            if (!keys.empty()) { put_bytes(m, 2, packed_u(keys)); put_bytes(m, 3, packed_u(vals)); }
            if (opt.with_info) { put_bytes(m, 4, info(b, *o, opt)); }
            std::vector<uint64_t> refs;
            int64_t p = 0;
            for (const auto& r : o->nodes) { refs.push_back(zz(r.ref - p)); p = r.ref; }
            if (!refs.empty()) { put_bytes(m, 8, packed_u(refs)); }
            put_bytes(g, 3, m);
        } else {
            put_int(m, 1, static_cast<uint64_t>(o->id));
            if (!keys.empty()) { put_bytes(m, 2, packed_u(keys)); put_bytes(m, 3, packed_u(vals)); }
            if (opt.with_info) { put_bytes(m, 4, info(b, *o, opt)); }
            std::vector<uint64_t> roles, mem, types;
            int64_t p = 0;
            for (const auto& mm : o->members) {
                roles.push_back(b.sid(mm.role));
                mem.push_back(zz(mm.ref - p)); p = mm.ref;
                types.push_back(mm.type == 'n' ? 0 : (mm.type == 'w' ? 1 : 2));
            }
            if (!roles.empty()) {
                put_bytes(m, 8, packed_u(roles));
                put_bytes(m, 9, packed_u(mem));
                put_bytes(m, 10, packed_u(types));
            }
            put_bytes(g, 4, m);
        }
    }
    return g;
}

inline std::string blob(const std::string& type, const std::string& data, bool use_zlib) {
    std::string bl;
    if (use_zlib) {
        uLongf len = compressBound(static_cast<uLong>(data.size()));
        std::string z(len, '\0');
        ::compress2(reinterpret_cast<Bytef*>(&z[0]), &len, reinterpret_cast<const Bytef*>(data.data()), static_cast<uLong>(data.size()), 6);
        z.resize(len);
        put_int(bl, 2, data.size());
        put_bytes(bl, 3, z);
    } else {
        put_bytes(bl, 1, data);
    }
    std::string bh;
    put_bytes(bh, 1, type);
    put_int(bh, 3, bl.size());
    std::string out;
    const uint32_t n = static_cast<uint32_t>(bh.size());
    out += static_cast<char>(n >> 24);
    out += static_cast<char>(n >> 16);
    out += static_cast<char>(n >> 8);
    out += static_cast<char>(n);
    out += bh;
    out += bl;
    return out;
}

// objects with ids that fit the coding (no changesets); grouping decided by the tape
inline std::string encode(const model::Data& d, const Options& opt) {
    std::string out;
    std::string hb;
    put_bytes(hb, 4, "OsmSchema-V0.6");
    if (opt.dense) { put_bytes(hb, 4, "DenseNodes"); }
    if (opt.history) { put_bytes(hb, 4, "HistoricalInformation"); }
    put_bytes(hb, 16, "verif-pbfenc");
    out += blob("OSMHeader", hb, opt.zlib);
    std::vector<const model::Obj*> objs;
    for (const auto& o : d.objs) {
        if (o.type != 'c') { objs.push_back(&o); }
    }
    size_t i = 0;
    while (i < objs.size()) {
        Block b;
        std::string groups;
        const uint32_t ngroups = 1 + sim::choose(sim::S_WORK, opt.max_groups_per_block);
        for (uint32_t gi = 0; gi < ngroups && i < objs.size(); ++gi) {
            std::vector<const model::Obj*> g;
            const char t = objs[i]->type;
            const uint32_t maxn = 1 + sim::choose(sim::S_WORK, opt.max_objects_per_group);
            while (i < objs.size() && objs[i]->type == t && g.size() < maxn) { g.push_back(objs[i++]); }
            std::string gs = group(b, g, opt);
            put_bytes(groups, 2, gs);
        }
        std::string pb;
        put_bytes(pb, 1, b.stringtable());
        pb += groups;
        out += blob("OSMData", pb, opt.zlib);
    }
    return out;
}

} // namespace pbfenc
