// Data model D used by the Reader/Writer harnesses: plain structs, tape-driven generator,
// builder (D -> osmium::memory::Buffer) and digest (delivered buffer -> plain rendering).
// digest() fully traverses every delivered item; under ASan that traversal is itself the
// "can be traversed completely" check of C03.
#pragma once

#include "sim.hpp"

#include <osmium/builder/osm_object_builder.hpp>
#include <osmium/memory/buffer.hpp>
#include <osmium/osm.hpp>
#include <osmium/io/header.hpp>

#include <cstdint>
#include <sstream>
#include <string>
#include <vector>

namespace model {

struct Tag { std::string k, v; };
struct NodeRefM { int64_t ref = 0; bool has_loc = false; int32_t x = 0, y = 0; };
struct MemberM { char type = 'n'; int64_t ref = 0; std::string role; };
struct CommentM { uint32_t date = 0; uint32_t uid = 0; std::string user, text; };

struct Obj {
    char type = 'n';            // n w r c
    int64_t id = 0;
    uint32_t version = 0;
    bool visible = true;
    uint32_t changeset = 0;
    uint32_t timestamp = 0;
    uint32_t uid = 0;
    std::string user;
    bool has_loc = false;
    int32_t x = 0, y = 0;
    std::vector<Tag> tags;
    std::vector<NodeRefM> nodes;
    std::vector<MemberM> members;
    // changeset only
    uint32_t created_at = 0, closed_at = 0, num_changes = 0;
    bool has_box = false;
    int32_t bx1 = 0, by1 = 0, bx2 = 0, by2 = 0;
    std::vector<CommentM> comments;
};

struct BoxM { int32_t x1, y1, x2, y2; };

struct Data {
    std::vector<BoxM> boxes;
    std::string generator;
    bool history = false;
    std::vector<Obj> objs;
};

// ------------------------------------------------------------------------------------------------
// generator

struct Profile {
    uint32_t max_objects = 60;
    bool changesets = false;       // include changesets (only XML and OPL carry them)
    bool comments = false;         // changeset discussions (XML only)
    bool history = false;          // several versions, deleted objects
    bool nasty_strings = true;     // XML/OPL structural characters, multi-byte UTF-8, long strings
    bool way_locations = false;    // node refs of ways carry locations
    int order = 0;                 // 0: sorted by type n,w,r,(c); 1: types alternate (many PBF blocks); 2: random
    bool big_ids = true;
    uint32_t exact_objects = 0;    // != 0: exactly this many objects (block-boundary runs)
    bool only_nodes = false;
    bool wild_locations = false;   // visible nodes without location
    bool invalid_coordinates = false;   // ... and coordinates outside +-180/+-90 (only PBF can express them; XML and OPL write degrees and reject them on reading)
    uint32_t max_tags = 5;
    uint32_t max_refs = 12;
};

inline std::string gen_string(sim::Stream s, bool nasty, size_t max_len = 24) {
    static const char* words[] = {"", "a", "highway", "name", "residential", "Main Street", "yes", "ref", "addr:housenumber", "42", "building"};
    static const char* nasties[] = {"<", ">", "&", "\"", "'", " ", ",", "=", "%", "@", "\t", "\n", "\r", "\\", "%20%", "&amp;", "]]>", "<!--",
                                    "\xc3\xa4", "\xc3\x9f", "\xe2\x82\xac", "\xe4\xb8\xad", "\xf0\x9f\x98\x80", "\xf0\x90\x8d\x88", "\xef\xbf\xbd", "\xc2\xa0", "\xe2\x80\xa8"};
    const uint32_t kind = sim::choose(s, nasty ? 6 : 2);
    if (kind == 0) { return words[1 + sim::choose(s, 10)]; }
    if (kind == 1) { return words[sim::choose(s, 11)]; }
    std::string out;
    if (kind == 5) {
        // long string up to the format limit region
        const size_t len = 200 + sim::choose(s, 800);
        while (out.size() < len) {
            out += words[1 + sim::choose(s, 10)];
            if (sim::choose(s, 4) == 0) { out += nasties[sim::choose(s, 27)]; }
        }
        if (out.size() > 1000) {
            out.resize(1000);
            // do not cut a UTF-8 sequence
            while (!out.empty() && (static_cast<unsigned char>(out.back()) & 0xc0) == 0x80) { out.pop_back(); }
            if (!out.empty() && (static_cast<unsigned char>(out.back()) & 0xc0) == 0xc0) { out.pop_back(); }
        }
        return out;
    }
    const uint32_t parts = 1 + sim::choose(s, 5);
    for (uint32_t i = 0; i < parts && out.size() < max_len; ++i) {
        if (sim::choose(s, 2)) { out += nasties[sim::choose(s, 27)]; } else { out += words[sim::choose(s, 11)]; }
    }
    return out;
}

inline int64_t gen_id(sim::Stream s, bool big, int64_t base) {
    if (!big) { return base; }
    switch (sim::choose(s, 12)) {
        case 1: return base + 1000000;
        case 2: return -base - 1;
        case 3: return (1LL << 31) + base;
        case 4: return (1LL << 32) - 1 - base;
        case 5: return (1LL << 53) + base;
        case 6: return INT64_MAX - base;
        case 7: return -(1LL << 40) - base;
        default: return base;
    }
}

inline int32_t gen_coord(sim::Stream s, int32_t limit) {
    switch (sim::choose(s, 8)) {
        case 0: return 0;
        case 1: return limit;
        case 2: return -limit;
        case 3: return 1;
        case 4: return -1;
        case 5: return static_cast<int32_t>(sim::choose(s, 1000)) * 100;
        default: return static_cast<int32_t>(sim::choose(s, static_cast<uint32_t>(limit))) * (sim::choose(s, 2) ? 1 : -1);
    }
}

inline uint32_t gen_u32(sim::Stream s) {
    switch (sim::choose(s, 8)) {
        case 0: return 0;
        case 1: return 1;
        case 2: return 0x7fffffffU;
        case 3: return 1 + sim::choose(s, 100000);
        default: return 1 + sim::choose(s, 1000);
    }
}

inline uint32_t gen_time(sim::Stream s) {
    switch (sim::choose(s, 8)) {
        case 0: return 0;
        case 1: return 1;
        case 2: return 0x7fffffffU;
        case 6: return 0x80000000U;   // "any uint32 timestamp"
        case 7: return 0xffffffffU;
        case 3: return 1234567890U;
        default: return 1000000000U + sim::choose(s, 600000000U);
    }
}

inline Obj gen_obj(char type, int64_t base_id, const Profile& p) {
    const sim::Stream s = sim::S_WORK;
    Obj o;
    o.type = type;
    o.id = gen_id(s, p.big_ids, base_id);
    if (type == 'c') {
        o.id = 1 + static_cast<int64_t>(base_id % 0x7fffffff); // changeset ids are 32 bit unsigned
        if (o.id < 0) { o.id = -o.id; }
    }
    o.version = p.history ? 1 + sim::choose(s, 5) : gen_u32(s);
    o.visible = p.history ? (sim::choose(s, 4) != 0) : true;
    o.changeset = gen_u32(s);
    if (sim::choose(s, 10) == 9) { o.changeset = sim::choose(s, 2) ? 0xfffffffeU : 0x80000000U; }   // large changeset ids (2^32-1 itself is rejected by every reader: types_from_string.hpp:116, pbf_decoder.hpp:287)
    o.timestamp = gen_time(s);
    o.uid = gen_u32(s);
    o.user = (o.uid == 0 && sim::choose(s, 2)) ? std::string{} : gen_string(s, p.nasty_strings);
    const uint32_t ntags = sim::choose(s, p.max_tags + 1);
    for (uint32_t i = 0; i < ntags; ++i) { o.tags.push_back(Tag{gen_string(s, p.nasty_strings), gen_string(s, p.nasty_strings)}); }
    if (type == 'n') {
        o.has_loc = o.visible ? true : (sim::choose(s, 2) != 0);
        o.x = gen_coord(s, 1800000000);
        o.y = gen_coord(s, 900000000);
        if (p.wild_locations) {
            // the value domain of C01: "locations undefined or any int32 pair"
            const uint32_t w = sim::choose(s, 12);
            if (w == 1) { o.has_loc = false; }                       // visible node without a location
            if (w == 2 && p.invalid_coordinates) { o.x = static_cast<int32_t>(sim::choose(s, 0xffffffffU)); o.y = static_cast<int32_t>(sim::choose(s, 0xffffffffU)); } // outside +-180/+-90 too
        }
    } else if (type == 'w') {
        const uint32_t n = sim::choose(s, p.max_refs + 1);
        for (uint32_t i = 0; i < n; ++i) {
            NodeRefM r;
            r.ref = gen_id(s, p.big_ids, 1 + sim::choose(s, 500));
            if (p.way_locations) {
                r.has_loc = true;
                r.x = gen_coord(s, 1800000000);
                r.y = gen_coord(s, 900000000);
            }
            o.nodes.push_back(r);
        }
    } else if (type == 'r') {
        const uint32_t n = sim::choose(s, p.max_refs + 1);
        for (uint32_t i = 0; i < n; ++i) {
            MemberM m;
            m.type = "nwr"[sim::choose(s, 3)];
            m.ref = gen_id(s, p.big_ids, 1 + sim::choose(s, 500));
            m.role = gen_string(s, p.nasty_strings);
            o.members.push_back(m);
        }
    } else {
        if (o.uid == 0) { o.user.clear(); } // an anonymous changeset has no user name (XML writes neither, xml_output_format.hpp changeset())
        o.created_at = gen_time(s);
        o.closed_at = sim::choose(s, 3) ? gen_time(s) : 0;
        o.num_changes = gen_u32(s);
        o.has_box = sim::choose(s, 2) != 0;
        if (o.has_box) {
            o.bx1 = gen_coord(s, 1800000000); o.by1 = gen_coord(s, 900000000);
            o.bx2 = gen_coord(s, 1800000000); o.by2 = gen_coord(s, 900000000);
        }
        if (p.comments) {
            const uint32_t n = sim::choose(s, 4);
            for (uint32_t i = 0; i < n; ++i) {
                o.comments.push_back(CommentM{gen_time(s), gen_u32(s), gen_string(s, p.nasty_strings), gen_string(s, p.nasty_strings)});
            }
        }
    }
    return o;
}

inline Data gen_data(const Profile& p) {
    const sim::Stream s = sim::S_WORK;
    Data d;
    d.history = p.history;
    const uint32_t nboxes = sim::choose(s, 3);
    for (uint32_t i = 0; i < nboxes; ++i) {
        int32_t x1 = gen_coord(s, 1800000000), y1 = gen_coord(s, 900000000), x2 = gen_coord(s, 1800000000), y2 = gen_coord(s, 900000000);
        if (x1 > x2) { std::swap(x1, x2); }
        if (y1 > y2) { std::swap(y1, y2); }
        d.boxes.push_back(BoxM{x1, y1, x2, y2});
    }
    d.generator = sim::choose(s, 2) ? std::string{} : std::string{"verif-gen"};
    const uint32_t n = p.exact_objects ? p.exact_objects : 1 + sim::choose(s, p.max_objects);
    const char* types = p.changesets ? "nwrc" : "nwr";
    const uint32_t ntypes = p.changesets ? 4 : 3;
    std::vector<char> seq;
    if (p.only_nodes) {
        seq.assign(n, 'n');
    } else if (p.order == 0) {
        uint32_t cut[4] = {0, 0, 0, 0};
        for (uint32_t t = 0; t < ntypes; ++t) { cut[t] = sim::choose(s, n + 1); }
        // type t gets a share proportional to its draw
        uint32_t total = 0;
        for (uint32_t t = 0; t < ntypes; ++t) { total += cut[t] + 1; }
        for (uint32_t t = 0; t < ntypes; ++t) {
            const uint32_t k = (cut[t] + 1) * n / total;
            for (uint32_t i = 0; i < k; ++i) { seq.push_back(types[t]); }
        }
        while (seq.size() < n) { seq.push_back(types[ntypes - 1]); }
    } else if (p.order == 1) {
        const uint32_t run = 1 + sim::choose(s, 4);
        for (uint32_t i = 0; i < n; ++i) { seq.push_back(types[(i / run) % ntypes]); }
    } else {
        for (uint32_t i = 0; i < n; ++i) { seq.push_back(types[sim::choose(s, ntypes)]); }
    }
    int64_t next_id = 1;
    for (char t : seq) {
        Obj o = gen_obj(t, next_id, p);
        d.objs.push_back(o);
        if (!(p.history && sim::choose(s, 3) == 0)) { ++next_id; } // history: same id again with another version
    }
    return d;
}

// ------------------------------------------------------------------------------------------------
// D -> buffer

inline osmium::item_type to_item_type(char c) {
    switch (c) {
        case 'n': return osmium::item_type::node;
        case 'w': return osmium::item_type::way;
        case 'r': return osmium::item_type::relation;
        default: return osmium::item_type::changeset;
    }
}

template <typename TBuilder>
inline void set_common(TBuilder& b, const Obj& o) {
    b.set_id(o.id);
    b.set_version(o.version);
    b.set_visible(o.visible);
    b.set_changeset(o.changeset);
    b.set_timestamp(osmium::Timestamp{o.timestamp});
    b.set_uid(o.uid);
    b.set_user(o.user);
}

template <typename TBuilder>
inline void add_tags(TBuilder& b, const Obj& o) {
    if (o.tags.empty()) { return; }
    osmium::builder::TagListBuilder tl{b};
    for (const auto& t : o.tags) { tl.add_tag(t.k, t.v); }
}

inline void build_obj(osmium::memory::Buffer& buffer, const Obj& o) {
    switch (o.type) {
        case 'n': {
            osmium::builder::NodeBuilder b{buffer};
            set_common(b, o);
            if (o.has_loc) { b.set_location(osmium::Location{o.x, o.y}); }
            add_tags(b, o);
            break;
        }
        case 'w': {
            osmium::builder::WayBuilder b{buffer};
            set_common(b, o);
            add_tags(b, o);
            if (!o.nodes.empty()) {
                osmium::builder::WayNodeListBuilder wl{b};
                for (const auto& r : o.nodes) {
                    wl.add_node_ref(osmium::NodeRef{r.ref, r.has_loc ? osmium::Location{r.x, r.y} : osmium::Location{}});
                }
            }
            break;
        }
        case 'r': {
            osmium::builder::RelationBuilder b{buffer};
            set_common(b, o);
            add_tags(b, o);
            if (!o.members.empty()) {
                osmium::builder::RelationMemberListBuilder ml{b};
                for (const auto& m : o.members) { ml.add_member(to_item_type(m.type), m.ref, m.role); }
            }
            break;
        }
        default: {
            osmium::builder::ChangesetBuilder b{buffer};
            b.set_id(static_cast<osmium::changeset_id_type>(o.id));
            b.set_created_at(osmium::Timestamp{o.created_at});
            b.set_closed_at(osmium::Timestamp{o.closed_at});
            b.set_uid(o.uid);
            b.set_num_changes(o.num_changes);
            b.set_num_comments(static_cast<osmium::num_comments_type>(o.comments.size()));
            if (o.has_box) {
                osmium::Box box;
                box.extend(osmium::Location{o.bx1, o.by1});
                box.extend(osmium::Location{o.bx2, o.by2});
                b.set_bounds(box);
            }
            b.set_user(o.user);
            add_tags(b, o);
            if (!o.comments.empty()) {
                osmium::builder::ChangesetDiscussionBuilder db{b};
                for (const auto& c : o.comments) {
                    db.add_comment(osmium::Timestamp{c.date}, c.uid, c.user.c_str());
                    db.add_comment_text(c.text);
                }
            }
            break;
        }
    }
    buffer.commit();
}

// Builds objs[from..] into one buffer and returns the index of the first object not included.
// The buffer never grows while a builder is alive: ChangesetDiscussionBuilder keeps a raw pointer to the
// comment across an append (osm_object_builder.hpp add_comment/add_comment_text), which dangles when an
// auto_grow::yes buffer reallocates in between (seen as an ASan heap-use-after-free while generating data;
// it belongs to C04, which is not a simulation target, so the generator simply avoids growth).
inline osmium::memory::Buffer build_buffer(const std::vector<Obj>& objs, size_t from, size_t to, size_t* next = nullptr) {
    constexpr size_t capacity = 128UL * 1024UL;
    osmium::memory::Buffer buffer{capacity, osmium::memory::Buffer::auto_grow::no};
    size_t i = from;
    for (; i < to && i < objs.size(); ++i) {
        if (buffer.committed() > capacity / 2) { break; } // one object is far below 64 KiB
        build_obj(buffer, objs[i]);
    }
    if (next) { *next = i; }
    return buffer;
}

inline osmium::io::Header build_header(const Data& d) {
    osmium::io::Header h;
    for (const auto& b : d.boxes) {
        osmium::Box box;
        box.extend(osmium::Location{b.x1, b.y1});
        box.extend(osmium::Location{b.x2, b.y2});
        h.add_box(box);
    }
    if (!d.generator.empty()) { h.set("generator", d.generator); }
    h.set_has_multiple_object_versions(d.history);
    return h;
}

// ------------------------------------------------------------------------------------------------
// digest: delivered entity -> plain rendering (every field, every string)

inline void put_str(std::string& o, const char* s) {
    // length-prefixed so that different splits never render equal
    const size_t n = std::strlen(s);
    o += std::to_string(n);
    o += ':';
    o.append(s, n);
}

inline void render_tags(std::string& o, const osmium::TagList& tags) {
    o += " T[";
    for (const auto& t : tags) {
        put_str(o, t.key());
        o += '=';
        put_str(o, t.value());
        o += ' ';
    }
    o += ']';
}

inline void render_loc(std::string& o, const osmium::Location& l) {
    o += '(';
    o += std::to_string(l.x());
    o += ',';
    o += std::to_string(l.y());
    o += ')';
}

inline void render_object_meta(std::string& o, const osmium::OSMObject& obj) {
    o += osmium::item_type_to_char(obj.type());
    o += std::to_string(obj.id());
    o += " v" + std::to_string(obj.version());
    o += obj.visible() ? " V" : " D";
    o += " c" + std::to_string(obj.changeset());
    o += " t" + std::to_string(obj.timestamp().seconds_since_epoch());
    o += " i" + std::to_string(obj.uid());
    o += " u";
    put_str(o, obj.user());
}

inline std::string render(const osmium::OSMEntity& e) {
    std::string o;
    switch (e.type()) {
        case osmium::item_type::node: {
            const auto& n = static_cast<const osmium::Node&>(e);
            render_object_meta(o, n);
            o += ' ';
            render_loc(o, n.location());
            render_tags(o, n.tags());
            break;
        }
        case osmium::item_type::way: {
            const auto& w = static_cast<const osmium::Way&>(e);
            render_object_meta(o, w);
            render_tags(o, w.tags());
            o += " N[";
            for (const auto& nr : w.nodes()) {
                o += std::to_string(nr.ref());
                render_loc(o, nr.location());
                o += ' ';
            }
            o += ']';
            break;
        }
        case osmium::item_type::relation: {
            const auto& r = static_cast<const osmium::Relation&>(e);
            render_object_meta(o, r);
            render_tags(o, r.tags());
            o += " M[";
            for (const auto& m : r.members()) {
                o += osmium::item_type_to_char(m.type());
                o += std::to_string(m.ref());
                o += '/';
                put_str(o, m.role());
                o += ' ';
            }
            o += ']';
            break;
        }
        case osmium::item_type::changeset: {
            const auto& c = static_cast<const osmium::Changeset&>(e);
            o += 'c';
            o += std::to_string(c.id());
            o += " cr" + std::to_string(c.created_at().seconds_since_epoch());
            o += " cl" + std::to_string(c.closed_at().seconds_since_epoch());
            o += " i" + std::to_string(c.uid());
            o += " u";
            put_str(o, c.user());
            o += " k" + std::to_string(c.num_changes());
            o += " d" + std::to_string(c.num_comments());
            o += " b";
            render_loc(o, c.bounds().bottom_left());
            render_loc(o, c.bounds().top_right());
            render_tags(o, c.tags());
            o += " D[";
            for (const auto& cm : c.discussion()) {
                o += std::to_string(cm.date().seconds_since_epoch());
                o += '/';
                o += std::to_string(cm.uid());
                o += '/';
                put_str(o, cm.user());
                o += '/';
                put_str(o, cm.text());
                o += ' ';
            }
            o += ']';
            break;
        }
        default:
            o = "?item-type-" + std::to_string(static_cast<int>(e.type()));
    }
    return o;
}

// appends one rendering per entity of the buffer; returns the number of item types seen (bit mask)
inline unsigned digest(const osmium::memory::Buffer& buffer, std::vector<std::string>& out) {
    unsigned mask = 0;
    for (const auto& item : buffer) {
        switch (item.type()) {
            case osmium::item_type::node:
            case osmium::item_type::way:
            case osmium::item_type::relation:
            case osmium::item_type::changeset:
                out.push_back(render(static_cast<const osmium::OSMEntity&>(item)));
                mask |= 1U << static_cast<unsigned>(item.type());
                break;
            default:
                out.push_back("?item-type-" + std::to_string(static_cast<int>(item.type())));
        }
    }
    return mask;
}

inline std::string render_header(const osmium::io::Header& h) {
    std::string o = "H[";
    for (const auto& b : h.boxes()) {
        render_loc(o, b.bottom_left());
        render_loc(o, b.top_right());
        o += ' ';
    }
    o += "] multi=";
    o += h.has_multiple_object_versions() ? '1' : '0';
    for (const auto& kv : h) {
        o += ' ';
        o += kv.first + "=" + kv.second;
    }
    return o;
}

// structured digest: metadata fields separately from the content, for read_meta / entity-mask comparisons
struct Rec {
    char type = '?';
    int64_t id = 0;
    uint32_t version = 0, changeset = 0, ts = 0, uid = 0;
    bool visible = true;
    std::string user;
    std::string content;
    bool operator==(const Rec& o) const {
        return type == o.type && id == o.id && version == o.version && changeset == o.changeset && ts == o.ts && uid == o.uid &&
               visible == o.visible && user == o.user && content == o.content;
    }
    bool operator!=(const Rec& o) const { return !(*this == o); }
    std::string str() const {
        std::string s;
        s += type;
        s += std::to_string(id) + " v" + std::to_string(version) + (visible ? " V" : " D") + " c" + std::to_string(changeset) + " t" + std::to_string(ts) + " i" + std::to_string(uid) + " u'" + user + "' " + content;
        return s;
    }
};

inline Rec make_rec(const osmium::OSMEntity& e) {
    Rec r;
    sim::progress(); // an object reached the consumer
    std::string& o = r.content;
    switch (e.type()) {
        case osmium::item_type::node: {
            const auto& n = static_cast<const osmium::Node&>(e);
            render_loc(o, n.location());
            render_tags(o, n.tags());
            break;
        }
        case osmium::item_type::way: {
            const auto& w = static_cast<const osmium::Way&>(e);
            render_tags(o, w.tags());
            o += " N[";
            for (const auto& nr : w.nodes()) {
                o += std::to_string(nr.ref());
                render_loc(o, nr.location());
                o += ' ';
            }
            o += ']';
            break;
        }
        case osmium::item_type::relation: {
            const auto& rel = static_cast<const osmium::Relation&>(e);
            render_tags(o, rel.tags());
            o += " M[";
            for (const auto& m : rel.members()) {
                o += osmium::item_type_to_char(m.type());
                o += std::to_string(m.ref());
                o += '/';
                put_str(o, m.role());
                o += ' ';
            }
            o += ']';
            break;
        }
        case osmium::item_type::changeset: {
            r.type = 'c';
            r.content = render(e);
            r.id = static_cast<const osmium::Changeset&>(e).id();
            return r;
        }
        default:
            r.content = "?item-type-" + std::to_string(static_cast<int>(e.type()));
            return r;
    }
    const auto& obj = static_cast<const osmium::OSMObject&>(e);
    r.type = osmium::item_type_to_char(obj.type());
    r.id = obj.id();
    r.version = obj.version();
    r.changeset = obj.changeset();
    r.ts = obj.timestamp().seconds_since_epoch();
    r.uid = obj.uid();
    r.visible = obj.visible();
    r.user = obj.user();
    return r;
}

inline unsigned digest_recs(const osmium::memory::Buffer& buffer, std::vector<Rec>& out) {
    unsigned mask = 0;
    sim::progress(); // a buffer reached the consumer
    for (const auto& item : buffer) {
        switch (item.type()) {
            case osmium::item_type::node:
            case osmium::item_type::way:
            case osmium::item_type::relation:
            case osmium::item_type::changeset:
                out.push_back(make_rec(static_cast<const osmium::OSMEntity&>(item)));
                mask |= 1U << static_cast<unsigned>(item.type());
                break;
            default: {
                Rec r;
                r.content = "?item-type-" + std::to_string(static_cast<int>(item.type()));
                out.push_back(r);
                mask |= 1U << 31;
            }
        }
    }
    return mask;
}

} // namespace model
