// Small o5m encoder (libosmium cannot write o5m), written from the format description at
// https://wiki.openstreetmap.org/wiki/O5m. Used only to produce o5m *inputs*; all oracles that use
// these inputs are differential (same bytes, reference run vs perturbed run), so the fidelity of this
// encoder cannot cause an alarm - at worst the reference run itself rejects a file.
#pragma once

#include "model.hpp"

#include <cstdint>
#include <deque>
#include <string>

namespace o5m {

inline void put_uvarint(std::string& o, uint64_t v) {
    while (v >= 0x80) {
        o += static_cast<char>((v & 0x7f) | 0x80);
        v >>= 7;
    }
    o += static_cast<char>(v);
}

inline void put_svarint(std::string& o, int64_t v) {
    const uint64_t z = (static_cast<uint64_t>(v) << 1) ^ static_cast<uint64_t>(v >> 63);
    put_uvarint(o, z);
}

struct Options {
    bool use_string_table = true;   // back-references for repeated strings
    bool with_info = true;          // version/timestamp/changeset/uid/user
    uint32_t reset_every = 0;       // emit a reset (0xff) every n objects (0: only at type changes)
    bool header_box = true;
    bool header_timestamp = false;
    bool change_file = false;       // o5c
    bool end_marker = true;         // 0xfe
};

class Encoder {
    Options m_opt;
    std::deque<std::string> m_table;   // most recent first
    int64_t m_id = 0, m_ts = 0, m_cs = 0, m_lon = 0, m_lat = 0, m_wn = 0;
    int64_t m_mem[3] = {0, 0, 0};

    void reset_state() {
        m_table.clear();
        m_id = m_ts = m_cs = m_lon = m_lat = m_wn = 0;
        m_mem[0] = m_mem[1] = m_mem[2] = 0;
    }

    // raw = the bytes between the leading 0x00 and including the final 0x00
    void put_string(std::string& o, const std::string& raw) {
        if (m_opt.use_string_table) {
            for (size_t i = 0; i < m_table.size(); ++i) {
                if (m_table[i] == raw) {
                    put_uvarint(o, i + 1);
                    return;
                }
            }
        }
        o += '\0';
        o += raw;
        if (raw.size() <= 252) {
            m_table.push_front(raw);
            if (m_table.size() > 15000) { m_table.pop_back(); }
        }
    }

    void put_info(std::string& o, const model::Obj& ob) {
        if (!m_opt.with_info || ob.version == 0) {
            o += '\0';
            return;
        }
        put_uvarint(o, ob.version);
        put_svarint(o, static_cast<int64_t>(ob.timestamp) - m_ts);
        m_ts = ob.timestamp;
        if (ob.timestamp != 0) {
            put_svarint(o, static_cast<int64_t>(ob.changeset) - m_cs);
            m_cs = ob.changeset;
            std::string raw;
            put_uvarint(raw, ob.uid);
            raw += '\0';
            if (ob.uid != 0) { raw += ob.user; }
            raw += '\0';
            if (ob.uid == 0) {
                raw = std::string("\0\0", 2);
            }
            put_string(o, raw);
        }
    }

    void put_tags(std::string& o, const model::Obj& ob) {
        for (const auto& t : ob.tags) {
            std::string raw = t.k;
            raw += '\0';
            raw += t.v;
            raw += '\0';
            put_string(o, raw);
        }
    }

    static bool has_nul(const std::string& s) { return s.find('\0') != std::string::npos; }

public:
    explicit Encoder(const Options& opt) : m_opt(opt) {}

    std::string encode(const model::Data& d) {
        std::string out;
        out += '\xff';
        out += '\xe0';
        out += '\x04';
        out += "o5";
        out += m_opt.change_file ? 'c' : 'm';
        out += '2';
        if (m_opt.header_timestamp) {
            std::string body;
            put_svarint(body, 1500000000);
            out += '\xdc';
            put_uvarint(out, body.size());
            out += body;
        }
        if (m_opt.header_box) {
            for (const auto& b : d.boxes) {
                std::string body;
                put_svarint(body, b.x1);
                put_svarint(body, b.y1);
                put_svarint(body, b.x2);
                put_svarint(body, b.y2);
                out += '\xdb';
                put_uvarint(out, body.size());
                out += body;
            }
        }
        char last_type = 0;
        uint32_t count = 0;
        for (const auto& ob : d.objs) {
            if (ob.type == 'c') { continue; }
            if (ob.type != last_type || (m_opt.reset_every && count % m_opt.reset_every == 0)) {
                out += '\xff';
                reset_state();
                last_type = ob.type;
            }
            ++count;
            std::string body;
            put_svarint(body, ob.id - m_id);
            m_id = ob.id;
            put_info(body, ob);
            const bool deleted = m_opt.change_file && !ob.visible;
            if (ob.type == 'n') {
                if (!deleted) {
                    const int64_t lon = ob.has_loc ? ob.x : 0;
                    const int64_t lat = ob.has_loc ? ob.y : 0;
                    put_svarint(body, lon - m_lon);
                    put_svarint(body, lat - m_lat);
                    m_lon = lon;
                    m_lat = lat;
                    put_tags(body, ob);
                }
                out += '\x10';
            } else if (ob.type == 'w') {
                if (!deleted) {
                    std::string refs;
                    for (const auto& r : ob.nodes) {
                        put_svarint(refs, r.ref - m_wn);
                        m_wn = r.ref;
                    }
                    put_uvarint(body, refs.size());
                    body += refs;
                    put_tags(body, ob);
                }
                out += '\x11';
            } else {
                if (!deleted) {
                    std::string refs;
                    for (const auto& m : ob.members) {
                        const int idx = m.type == 'n' ? 0 : (m.type == 'w' ? 1 : 2);
                        put_svarint(refs, m.ref - m_mem[idx]);
                        m_mem[idx] = m.ref;
                        std::string raw;
                        raw += static_cast<char>('0' + idx);
                        raw += m.role;
                        raw += '\0';
                        put_string(refs, raw);
                    }
                    put_uvarint(body, refs.size());
                    body += refs;
                    put_tags(body, ob);
                }
                out += '\x12';
            }
            put_uvarint(out, body.size());
            out += body;
        }
        if (m_opt.end_marker) { out += '\xfe'; }
        return out;
    }
};

} // namespace o5m
